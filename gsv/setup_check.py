"""setup_cmd: verify that the tools the checks need are present and that the engine basics work. Builds nothing."""
import os
import shutil
import subprocess
import sys


def main():
    ok = True
    try:
        import z3
        print("z3", z3.get_version_string())
    except Exception as e:      # noqa: BLE001
        print("z3 python API missing:", e)
        ok = False
    for tool in ("/usr/bin/cvc5", "/venv/bin/python"):
        if not os.path.exists(tool):
            print("missing", tool)
            ok = False
    try:
        out = subprocess.run(["/venv/bin/python", "-c", "import numpy, scipy, graphslam; print(numpy.__version__, scipy.__version__)"],
                             capture_output=True, text=True, timeout=120)
        print("replay interpreter:", out.stdout.strip() or out.stderr.strip()[-200:])
        ok = ok and out.returncode == 0
    except Exception as e:      # noqa: BLE001
        print("replay interpreter failed:", e)
        ok = False
    # engine smoke test: (a+b)^2 normal form and a jet derivative
    from gsv.engine import sym as S, poly as P
    st = S.new_state()
    x = S.Sym(P.Poly.var(st.var("x")))
    y = S.Sym(P.Poly.var(st.var("y")))
    assert ((x + y) ** 2 - (x * x + 2 * x * y + y * y)).n.is_zero()
    c, s = S.cos(x + y), S.sin(x + y)
    assert P.nf((c * c + s * s - 1).n).is_zero()
    print("engine ok")
    try:
        from gsv.selftest import engine_vs_sympy
        ok = engine_vs_sympy.main() and ok
    except ImportError as e:
        print("engine-vs-sympy test skipped (sympy not importable here):", e)
    try:
        from gsv.selftest import shim_fidelity
        ok = shim_fidelity.main() and ok
    except ImportError as e:
        print("shim fidelity test skipped (real numpy not importable here):", e)
    return 0 if ok else 1
