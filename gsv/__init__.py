"""gsv -- contract-based verification of python-graphslam by symbolic execution of the real sources.

See /verif/DESIGN.md.  Nothing in this package imports z3/cvc5 at module level, so that the
contract modules can also be imported by the replay interpreter (/venv/bin/python), which has
the repository's real numpy/scipy but no solvers.
"""
