"""Replay a counterexample file on the real code with the real numpy (any interpreter that has the repo's deps)."""
import json
import os
import sys


def main(path, repo="/repo"):
    with open(path) as f:
        doc = json.load(f)
    fi = doc.get("failing_input")
    print("obligation:", doc["obligation"])
    if not fi:
        print("no failing input recorded (no-failing-input-found); verifier output:")
        print(json.dumps(doc.get("verifier_output"), indent=1)[:3000])
        return 0
    try:
        import numpy  # noqa: F401
        from gsv import numrun
        from gsv.engine import loader
        import importlib
        r = loader.load(repo, symbolic=False)
        mod = importlib.import_module("gsv.contracts." + doc["property"].lower())
        obs = {o.id: o for o in mod.obligations(r, doc["tier"], doc["seed"])}
        res = numrun.run_one(obs[doc["obligation"]], r, fi["point"], 0, typed=fi.get("typed"))
    except ImportError:
        from gsv import runner
        out = runner.run_numeric(doc["property"], doc["tier"], doc["seed"], repo, [doc["obligation"]], 1, "replay", witness=fi["point"], typed=fi.get("typed"))
        res = (out.get("results", {}).get(doc["obligation"], {}).get("failed_points") or [None])[0] or {"goals": []}
    if res is None:
        print("point rejected by the preconditions")
        return 0
    if res.get("goals"):
        print("REPRODUCED on the real code: failing goals:")
        for g in res["goals"]:
            print("  ", json.dumps(g, default=str)[:500])
        print("input:", json.dumps(fi["point"])[:2000])
        return 1
    print("not reproduced: all goals hold at the recorded input")
    return 0
