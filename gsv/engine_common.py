"""Small helpers shared by both interpreters (no solver imports)."""


def is_control_exception(e):
    from gsv.engine.sym import Unsupported, PathAbort
    from gsv.kernel import Reject
    return isinstance(e, (Unsupported, PathAbort, Reject, KeyboardInterrupt, MemoryError, RecursionError, TimeoutError))
