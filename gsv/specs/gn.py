"""Dense Gauss-Newton assembler (the oracle of C03 / C04 / C06), written from the definition:

    b = sum_edges J^T Omega e        H = sum_edges J^T Omega J        (blocks scattered by vertex position)

Inputs are plain nested lists / indexable arrays of scalars of the current interpretation (Sym or float).
"""


def assemble(dims, edges):
    """dims: list of compact dimensions by vertex list position.
    edges: list of (positions, e, Js, Omega) with positions = vertex list positions of the edge's vertices,
           e indexable of length m, Js[k] indexable [m][dims[positions[k]]], Omega indexable [m][m].
    Returns (H, b, offsets) with H a list of N lists."""
    offsets = []
    acc = 0
    for d in dims:
        offsets.append(acc)
        acc += d
    N = acc
    H = [[0] * N for _ in range(N)]
    b = [0] * N
    for positions, e, Js, Om in edges:
        m = len(e)
        # Omega e and Omega J_k
        Oe = [sum_(Om[r][c] * e[c] for c in range(m)) for r in range(m)]
        for a, pa in enumerate(positions):
            Ja = Js[a]
            da = dims[pa]
            for i in range(da):
                b[offsets[pa] + i] = b[offsets[pa] + i] + sum_(Ja[r][i] * Oe[r] for r in range(m))
            for bb, pb in enumerate(positions):
                Jb = Js[bb]
                db = dims[pb]
                OJb = [[sum_(Om[r][c] * Jb[c][j] for c in range(m)) for j in range(db)] for r in range(m)]
                for i in range(da):
                    for j in range(db):
                        H[offsets[pa] + i][offsets[pb] + j] = H[offsets[pa] + i][offsets[pb] + j] + sum_(Ja[r][i] * OJb[r][j] for r in range(m))
    return H, b, offsets


def sum_(it):
    acc = 0
    for x in it:
        acc = acc + x
    return acc


def reduced_system(H, b, offsets, dims, fixed_positions):
    """Equations of the reduced problem as (rows, rhs): for free unknowns  H_ff dx_f = -b_f ; for fixed ones dx = 0.
    Returned as a full N x N system (fixed columns removed from the free rows)."""
    N = len(b)
    fixed_idx = set()
    for p in fixed_positions:
        for i in range(dims[p]):
            fixed_idx.add(offsets[p] + i)
    A = [[0] * N for _ in range(N)]
    rhs = [0] * N
    for i in range(N):
        if i in fixed_idx:
            A[i][i] = 1
            rhs[i] = 0
        else:
            for j in range(N):
                if j not in fixed_idx:
                    A[i][j] = H[i][j]
            rhs[i] = -b[i]
    return A, rhs, sorted(fixed_idx)
