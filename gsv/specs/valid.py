"""The table of consistent edge typings (oracle of C18), taken from the property's own list (C01/C18 statements)."""

C = {"R2": 2, "R3": 3, "SE2": 3, "SE3": 6}
LANDMARK_PAIRS = {("SE2", "R2"), ("SE3", "R3"), ("R2", "R2"), ("R3", "R3")}


def consistent(kind, pose_types, estimate_type, offset_type, info_shape):
    """kind: 'odometry' | 'landmark'; pose_types: tuple of the endpoint pose types (length = vertex count);
    estimate_type / offset_type: a pose type name, 'array' (bare ndarray) or None; info_shape: tuple."""
    if len(pose_types) != 2:
        return False
    if kind == "odometry":
        T = pose_types[0]
        if pose_types[1] != T or estimate_type != T:
            return False
        return tuple(info_shape) == (C[T], C[T])
    if kind == "landmark":
        if tuple(pose_types) not in LANDMARK_PAIRS:
            return False
        if offset_type != pose_types[0] or estimate_type != pose_types[1]:
            return False
        d = C[pose_types[1]]
        return tuple(info_shape) == (d, d)
    raise KeyError(kind)
