"""Independent model of the four pose types: homogeneous matrices and Hamilton products.

Written from the mathematics (not from the repository's formulas).  Every function takes the
numpy-like module ``np`` of the current interpretation, so the same text runs symbolically and in
floating point.  Quaternions are (x, y, z, w) as in the repository's storage order.
"""


def rot2(np, c, s):
    return np.array([[c, -s], [s, c]])


def hom_R(np, t):
    """Homogeneous matrix of a pure translation t (length 2 or 3)."""
    n = len(t)
    rows = [[(1 if i == j else 0) for j in range(n)] + [t[i]] for i in range(n)]
    rows.append([0] * n + [1])
    return np.array(rows)


def hom_SE2(np, x, y, th):
    c, s = np.cos(th), np.sin(th)
    return np.array([[c, -s, x], [s, c, y], [0, 0, 1]])


def rotmat(np, q):
    """Rotation matrix of a unit quaternion q = (x, y, z, w): the standard formula R = I + 2w[v]x + 2[v]x^2."""
    x, y, z, w = q
    return np.array([
        [1 - 2 * (y * y + z * z), 2 * (x * y - z * w), 2 * (x * z + y * w)],
        [2 * (x * y + z * w), 1 - 2 * (x * x + z * z), 2 * (y * z - x * w)],
        [2 * (x * z - y * w), 2 * (y * z + x * w), 1 - 2 * (x * x + y * y)],
    ])


def hom_SE3(np, t, q):
    R = rotmat(np, q)
    return np.array([
        [R[0, 0], R[0, 1], R[0, 2], t[0]],
        [R[1, 0], R[1, 1], R[1, 2], t[1]],
        [R[2, 0], R[2, 1], R[2, 2], t[2]],
        [0, 0, 0, 1],
    ])


def hamilton(p, q):
    """Hamilton product p (x) q of quaternions stored as (x, y, z, w)."""
    px, py, pz, pw = p
    qx, qy, qz, qw = q
    return [
        pw * qx + px * qw + py * qz - pz * qy,
        pw * qy - px * qz + py * qw + pz * qx,
        pw * qz + px * qy - py * qx + pz * qw,
        pw * qw - px * qx - py * qy - pz * qz,
    ]


def conj(q):
    return [-q[0], -q[1], -q[2], q[3]]


def norm2(q):
    return q[0] * q[0] + q[1] * q[1] + q[2] * q[2] + q[3] * q[3]


def hom(np, T, p):
    """Homogeneous matrix of a repository pose object p of type T (reads components by index only)."""
    if T == "R2":
        return hom_R(np, [p[0], p[1]])
    if T == "R3":
        return hom_R(np, [p[0], p[1], p[2]])
    if T == "SE2":
        return hom_SE2(np, p[0], p[1], p[2])
    if T == "SE3":
        return hom_SE3(np, [p[0], p[1], p[2]], [p[3], p[4], p[5], p[6]])
    raise KeyError(T)


def quat(p):
    return [p[3], p[4], p[5], p[6]]


def identity_matrix(np, n):
    return np.array([[(1 if i == j else 0) for j in range(n)] for i in range(n)])


def homdim(T):
    return {"R2": 3, "R3": 4, "SE2": 3, "SE3": 4}[T]


def act(np, T, p, x):
    """hom(p) applied to the point x (list), returned as a list."""
    M = hom(np, T, p)
    h = np.dot(M, np.array(list(x) + [1]))
    return [h[i] for i in range(len(x))]
