"""The .g2o vocabulary supported by python-graphslam, written from the g2o file format (not from the parsers).

A line is  TAG id... [param-id] value...  separated by blanks.  For edges the values are the measurement followed by the
upper triangle of the information matrix in row-major order."""

GRAMMAR = {
    # tag: (kind, number of vertex ids, has parameter id, number of measurement/pose values, information dimension)
    "VERTEX_XY": ("vertex", 1, False, 2, 0),
    "VERTEX_TRACKXYZ": ("vertex", 1, False, 3, 0),
    "VERTEX_SE2": ("vertex", 1, False, 3, 0),
    "VERTEX_SE3:QUAT": ("vertex", 1, False, 7, 0),
    "EDGE_SE2": ("edge", 2, False, 3, 3),
    "EDGE_SE3:QUAT": ("edge", 2, False, 7, 6),
    "EDGE_SE2_XY": ("edge", 2, False, 2, 2),
    "EDGE_SE3_TRACKXYZ": ("edge", 2, True, 3, 3),
    "PARAMS_SE2OFFSET": ("param", 1, False, 3, 0),
    "PARAMS_SE3OFFSET": ("param", 1, False, 7, 0),
}

POSE_OF_VERTEX = {"VERTEX_XY": "R2", "VERTEX_TRACKXYZ": "R3", "VERTEX_SE2": "SE2", "VERTEX_SE3:QUAT": "SE3"}
EDGE_TYPING = {"EDGE_SE2": ("odometry", "SE2"), "EDGE_SE3:QUAT": ("odometry", "SE3"), "EDGE_SE2_XY": ("landmark", "R2"), "EDGE_SE3_TRACKXYZ": ("landmark", "R3")}


def n_info(dim):
    return dim * (dim + 1) // 2


def n_values(tag):
    kind, nid, haspar, nmeas, dim = GRAMMAR[tag]
    return nmeas + n_info(dim)


def expand_upper(values, dim):
    """Symmetric matrix (list of lists) from the row-major upper triangle."""
    M = [[None] * dim for _ in range(dim)]
    it = iter(values)
    for i in range(dim):
        for j in range(i, dim):
            M[i][j] = M[j][i] = next(it)
    return M


def upper_of(M, dim):
    return [M[i][j] for i in range(dim) for j in range(i, dim)]
