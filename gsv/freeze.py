"""Write expected_obligations.json (the frozen obligation set) -- run explicitly on the unchanged tree, never by a check."""
import json
import os


def main(props):
    from gsv import runner
    from gsv.engine import loader
    r = loader.load("/repo", True)
    path = os.path.join(runner.VERIF, "expected_obligations.json")
    data = {}
    if os.path.exists(path):
        with open(path) as f:
            data = json.load(f)
    props = [p.upper() for p in props] or runner.PROPS
    for p in props:
        try:
            mod = runner.contract_module(p)
        except ImportError:
            continue
        data[p] = {}
        for tier in ("quick", "thorough"):
            data[p][tier] = sorted(o.id for o in mod.obligations(r, tier, 0) if not runner.SEEDED_ID.search(o.id))
        print(p, {t: len(v) for t, v in data[p].items()})
    with open(path, "w") as f:
        json.dump(data, f, indent=0, sort_keys=True)
    return 0
