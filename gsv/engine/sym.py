"""Exact symbolic real scalars for executing the real python-graphslam sources.

A Sym is a quotient n/d of polynomials (gsv.engine.poly) over the variables of the current
symbolic *state*.  Transcendental operations introduce atoms with defining relations:

  cos/sin   one (c, s) variable pair per base angle, relation c^2+s^2=1 as a rewrite rule
            c^2 -> 1-s^2; arguments must be integer-linear in base angles plus 2*pi*k terms
            (k an integer ghost) plus an infinitesimal part; sums are expanded with the
            angle-addition formulas
  sqrt      one variable r per radicand u, rule r^2 -> u, hypothesis r >= 0
  x % m     an integer ghost k, value x - m*k, hypothesis 0 <= x - m*k < m; memoised on
            (x, m) because % is a function
  np.pi     a variable PI with hypothesis 3 < PI < 4 (only 2*pi-periodicity is ever used)

Comparisons give SymBool formulas; when Python asks for a truth value the path explorer of
the state decides it (both branches that are feasible under the current path condition are
scheduled, the obligation is re-executed once per path).
"""
from fractions import Fraction

from . import poly as P
from .poly import Poly


class Unsupported(Exception):
    """The code left the fragment the symbolic interpreter models (-> undecided, never a violation)."""


class PathAbort(Exception):
    """Raised to abandon an infeasible path."""


# --------------------------------------------------------------------------- state

class State:
    def __init__(self):
        self.pc = P.reset_ctx()
        self.hyps = []          # formulas assumed (preconditions, atom definitions)
        self.path = []          # formulas decided on this path, in order
        self.trail = []         # decisions to replay
        self.pos = 0
        self.work = []          # alternative trails discovered
        self.memo = {}
        self.trig = {}          # base-angle key -> (cvar, svar)
        self.eager = False      # reduce modulo rules after every product
        self.decider = None     # callable(state, formula) -> list of feasible booleans
        self.range_oracle = None  # callable(state, x, m) -> True if the hypotheses imply 0 <= x < m
        self.notes = []         # assumptions made on the way (e.g. unproved non-zero divisors)
        self.tokens = {}        # g2o number tokens -> Sym
        self.token_of = {}
        self.unit_quats = []    # lists of 4 Sym
        self.counter = 0
        self.pi = Sym(Poly.var(0))
        self.hyps.append(("lt", Sym(3) - self.pi))
        self.hyps.append(("lt", self.pi - Sym(4)))

    def fresh(self, base, kind="real"):
        self.counter += 1
        name = "%s#%d" % (base, self.counter)
        return self.pc.new_var(name, kind)

    def var(self, name, kind="real"):
        if name in self.pc.by_name:
            v = self.pc.by_name[name]
        else:
            v = self.pc.new_var(name, kind)
        return v

    def assume(self, formula):
        self.hyps.append(formula)

    def get_pi(self):
        return self.pi

    # ---- explorer
    def decide(self, formula):
        if self.pos < len(self.trail):
            d = self.trail[self.pos]
        else:
            if self.decider is None:
                raise Unsupported("symbolic branch without a decider: %r" % (formula,))
            feas = self.decider(self, formula)
            if not feas:
                raise PathAbort()
            d = feas[0]
            if len(feas) == 2:
                self.work.append(self.trail[: self.pos] + [feas[1]])
            self.trail.append(d)
        self.pos += 1
        self.path.append(formula if d else ("not", formula))
        return d


STATE = None


def new_state():
    global STATE
    STATE = State()
    return STATE


def state():
    return STATE


# --------------------------------------------------------------------------- scalars

def _poly_of(x):
    if isinstance(x, Poly):
        return x
    return Poly.const(x)


class Sym:
    __slots__ = ("n", "d")
    __array_priority__ = 1000

    def __init__(self, n, d=None):
        if not isinstance(n, Poly):
            n = Poly.const(n)
        if d is not None and not n.t:
            d = None            # 0/d = 0 (divisions are assumed defined: every divisor is recorded in state.notes)
        if d is not None:
            if d.is_const():
                c = d.const_value()
                if c == 0:
                    raise ZeroDivisionError("symbolic division by the zero polynomial")
                n = n.scale(Fraction(1) / Fraction(c))
                d = None
        self.n = n
        self.d = d

    # ---- helpers
    @staticmethod
    def lift(x):
        if isinstance(x, Sym):
            return x
        if isinstance(x, (int, float, Fraction)):
            return Sym(Poly.const(x))
        if isinstance(x, SymBool):
            raise Unsupported("arithmetic on a symbolic boolean")
        return None

    def is_const(self):
        return self.d is None and self.n.is_const()

    def const_value(self):
        return self.n.const_value()

    def key(self):
        return (self.n.key(), None if self.d is None else self.d.key())

    def _red(self, p):
        if STATE is not None and STATE.eager and STATE.pc.rules:
            return P.nf(p)
        return p

    # ---- arithmetic
    def __add__(self, o):
        o = Sym.lift(o)
        if o is None:
            return NotImplemented
        if self.d is None and o.d is None:
            return Sym(self.n + o.n)
        sd = self.d if self.d is not None else P.ONE
        od = o.d if o.d is not None else P.ONE
        if self.d is not None and o.d is not None and self.d == o.d:
            return Sym(self.n + o.n, self.d)
        return Sym(self._red(self.n * od + o.n * sd), self._red(sd * od))

    __radd__ = __add__

    def __neg__(self):
        return Sym(-self.n, self.d)

    def __pos__(self):
        return self

    def __sub__(self, o):
        o = Sym.lift(o)
        if o is None:
            return NotImplemented
        return self + (-o)

    def __rsub__(self, o):
        o = Sym.lift(o)
        if o is None:
            return NotImplemented
        return o + (-self)

    def __mul__(self, o):
        o = Sym.lift(o)
        if o is None:
            return NotImplemented
        n = self._red(self.n * o.n)
        if self.d is None and o.d is None:
            return Sym(n)
        sd = self.d if self.d is not None else P.ONE
        od = o.d if o.d is not None else P.ONE
        return Sym(n, self._red(sd * od))

    __rmul__ = __mul__

    def __truediv__(self, o):
        o = Sym.lift(o)
        if o is None:
            return NotImplemented
        if o.n.is_zero():
            raise ZeroDivisionError("division by zero")
        if o.is_const():
            return Sym(self.n.scale(Fraction(1) / Fraction(o.const_value())), self.d)
        note_nonzero(o)
        sd = self.d if self.d is not None else P.ONE
        od = o.d if o.d is not None else P.ONE
        return Sym(self._red(self.n * od), self._red(sd * o.n))

    def __rtruediv__(self, o):
        o = Sym.lift(o)
        if o is None:
            return NotImplemented
        return o.__truediv__(self)

    def __pow__(self, e):
        if isinstance(e, Sym):
            if not e.is_const():
                raise Unsupported("symbolic exponent")
            e = e.const_value()
        if isinstance(e, float):
            if e == 0.5:
                return sqrt(self)
            if e != int(e):
                raise Unsupported("non-integer power")
            e = int(e)
        if isinstance(e, Fraction):
            if e == Fraction(1, 2):
                return sqrt(self)
            if e.denominator != 1:
                raise Unsupported("non-integer power")
            e = int(e)
        if e < 0:
            return Sym(1) / (self ** (-e))
        r = Sym(1)
        b = self
        while e:
            if e & 1:
                r = r * b
            e >>= 1
            if e:
                b = b * b
        return r

    def __rpow__(self, o):
        raise Unsupported("symbolic exponent")

    def __mod__(self, m):
        return mod(self, m)

    def __rmod__(self, o):
        return mod(Sym.lift(o), self)

    def __abs__(self):
        return self if self >= 0 else -self

    # ---- comparisons (formulas are stated as  expr REL 0)
    def __lt__(self, o):
        return SymBool(("lt", self - Sym.lift(o)))

    def __le__(self, o):
        return SymBool(("le", self - Sym.lift(o)))

    def __gt__(self, o):
        return SymBool(("lt", Sym.lift(o) - self))

    def __ge__(self, o):
        return SymBool(("le", Sym.lift(o) - self))

    def __eq__(self, o):
        o2 = Sym.lift(o) if not isinstance(o, SymBool) else None
        if o2 is None:
            return False
        return SymBool(("eq", self - o2))

    def __ne__(self, o):
        o2 = Sym.lift(o) if not isinstance(o, SymBool) else None
        if o2 is None:
            return True
        return SymBool(("not", ("eq", self - o2)))

    def __hash__(self):
        # by value (the polynomial): a cache keyed on numbers hits for syntactically equal values; `==` on a collision is a decision
        return hash(self.key())

    def __round__(self, ndigits=None):
        """round(x, n): the multiple of 10^-n nearest to x, as an integer ghost m with |x * 10^n - m| <= 1/2 (ties: either way --
        an over-approximation of round-half-to-even that is exact off the measure-zero tie set)."""
        if self.is_const():
            v = round(Fraction(self.const_value()), ndigits)
            return v if ndigits is None else Sym(Poly.const(Fraction(v)))
        st = _need_state()
        nd = 0 if ndigits is None else int(ndigits)
        scale = Fraction(10) ** nd
        key = ("round", self.key(), nd)
        m = st.memo.get(key)
        if m is None:
            m = Sym(Poly.var(st.fresh("m", "int")))
            st.memo[key] = m
            d = self * Sym(Poly.const(scale)) - m
            st.hyps.append(("le", d - Sym(Poly.const(Fraction(1, 2)))))
            st.hyps.append(("le", -d - Sym(Poly.const(Fraction(1, 2)))))
        return m / Sym(Poly.const(scale)) if ndigits is not None else m

    def is_integer(self):
        """float.is_integer() of a symbolic value: a decision.  On the True branch the value equals a fresh integer ghost (exact);
        on the False branch nothing is added (an over-approximation: the branch is explored for every value)."""
        if self.is_const():
            return Fraction(self.const_value()).denominator == 1
        st = _need_state()
        key = ("is_integer", self.key())
        n = st.memo.get(key)
        if n is None:
            n = Sym(Poly.var(st.fresh("n", "int")))
            st.memo[key] = n
        return bool(SymBool(("eq", self - n)))

    # ---- conversions
    def __float__(self):
        if self.is_const():
            return float(Fraction(self.const_value()))
        raise Unsupported("float() of a symbolic value")

    def __int__(self):
        if self.is_const():
            return int(Fraction(self.const_value()))
        raise Unsupported("int() of a symbolic value")

    def __index__(self):
        if self.is_const() and Fraction(self.const_value()).denominator == 1:
            return int(self.const_value())
        raise Unsupported("symbolic value used as an index")

    def __bool__(self):
        return bool(self != 0)

    def __repr__(self):
        if self.d is None:
            return "Sym(%r)" % (self.n,)
        return "Sym((%r)/(%r))" % (self.n, self.d)

    def __format__(self, spec):
        from . import tokens
        return tokens.format_sym(self, spec)

    def __str__(self):
        from . import tokens
        return tokens.format_sym(self, "")

    # numpy-scalar look-alikes that the repo may touch
    @property
    def shape(self):
        return ()

    @property
    def ndim(self):
        return 0


def note_nonzero(s):
    """Record that a division by s happened; the obligation runner tries to justify s != 0."""
    st = STATE
    if st is not None:
        st.notes.append(("div", s))


# --------------------------------------------------------------------------- booleans

class SymBool:
    __slots__ = ("f",)

    def __init__(self, f):
        self.f = f

    def __bool__(self):
        triv = trivial_truth(self.f)
        if triv is not None:
            return triv
        st = STATE
        if st is None:
            raise Unsupported("symbolic branch outside an obligation")
        return st.decide(self.f)

    def __and__(self, o):
        if isinstance(o, SymBool):
            return SymBool(("and", self.f, o.f))
        return self if o else SymBool(("false",))

    __rand__ = __and__

    def __or__(self, o):
        if isinstance(o, SymBool):
            return SymBool(("or", self.f, o.f))
        return SymBool(("true",)) if o else self

    __ror__ = __or__

    def __invert__(self):
        return SymBool(("not", self.f))

    def __xor__(self, o):
        a = self.f
        b = o.f if isinstance(o, SymBool) else (("true",) if o else ("false",))
        return SymBool(("or", ("and", a, ("not", b)), ("and", ("not", a), b)))

    __rxor__ = __xor__

    def __repr__(self):
        return "SymBool(%r)" % (self.f,)


def trivial_truth(f):
    """Truth value of a formula if it is syntactically decided, else None."""
    op = f[0]
    if op == "true":
        return True
    if op == "false":
        return False
    if op in ("lt", "le", "eq"):
        s = f[1]
        n = s.n
        if STATE is not None and STATE.pc.rules:
            n = P.nf(n)
        if s.d is None or s.d.is_const():
            if n.is_zero():
                return op in ("le", "eq")
            if n.is_const():
                c = n.const_value()
                return {"lt": c < 0, "le": c <= 0, "eq": c == 0}[op]
        elif n.is_zero():
            return op in ("le", "eq")
        return None
    if op == "not":
        t = trivial_truth(f[1])
        return None if t is None else (not t)
    if op == "and":
        ts = [trivial_truth(g) for g in f[1:]]
        if any(t is False for t in ts):
            return False
        if all(t is True for t in ts):
            return True
        return None
    if op == "or":
        ts = [trivial_truth(g) for g in f[1:]]
        if any(t is True for t in ts):
            return True
        if all(t is False for t in ts):
            return False
        return None
    return None


def formula_of(x):
    if isinstance(x, SymBool):
        return x.f
    return ("true",) if x else ("false",)


# --------------------------------------------------------------------------- atoms

def _need_state():
    if STATE is None:
        raise Unsupported("no symbolic state")
    return STATE


def add_rule(v, rep):
    STATE.pc.rules[v] = rep


def sqrt(x):
    x = Sym.lift(x)
    if x is not None and x.d is None and x.n.is_const() and (STATE is None or not STATE.pc.inf):
        # a constant (e.g. a module-level tolerance computed at import time, before any obligation runs): exact when it is a rational
        # square, otherwise the double that the real code computes, read exactly
        c = Fraction(x.n.const_value())
        if c >= 0:
            import math
            a, b = math.isqrt(c.numerator), math.isqrt(c.denominator)
            if a * a == c.numerator and b * b == c.denominator:
                return Sym(Poly.const(Fraction(a, b)))
            if STATE is None:
                return Sym(Poly.const(Fraction(math.sqrt(float(c)))))
    st = _need_state()
    if x.d is not None:
        # sqrt(n/d) = sqrt(n*d)/|d| ; only supported when d is provably a square or positive: keep simple
        raise Unsupported("sqrt of a quotient")
    n = P.nf(x.n) if st.pc.rules else x.n
    if st.pc.inf:
        t0, t1 = n.split()
        if t1:
            r0 = sqrt(Sym(Poly(dict(t0))))
            if r0.n.is_zero():
                raise Unsupported("sqrt is not differentiable at 0")
            return r0 + Sym(Poly(dict(t1))) / (2 * r0)
    if n.is_const():
        c = Fraction(n.const_value())
        if c < 0:
            raise Unsupported("sqrt of a negative constant")
        import math
        a, b = math.isqrt(c.numerator), math.isqrt(c.denominator)
        if a * a == c.numerator and b * b == c.denominator:
            return Sym(Poly.const(Fraction(a, b)))
    # perfect square monomial-free detection: u == p*p for a single variable power is handled by rules
    key = ("sqrt", n.key())
    r = st.memo.get(key)
    if r is None:
        v = st.fresh("sqrt", "atom")
        st.pc.rules[v] = n
        r = Sym(Poly.var(v))
        st.memo[key] = r
        st.hyps.append(("le", -r))                      # r >= 0
        st.hyps.append(("eq", r * r - Sym(n)))          # r^2 = u (for the SMT side)
        st.hyps.append(("le", -Sym(n)))                 # the radicand is >= 0 wherever sqrt is applied
    return r


def mod(x, m):
    x = Sym.lift(x)
    m = Sym.lift(m)
    st = _need_state()
    if x is None or m is None:
        raise Unsupported("%% on unsupported operands")
    if x.is_const() and m.is_const():
        a, b = Fraction(x.const_value()), Fraction(m.const_value())
        return Sym(Poly.const(a - b * (a // b)))
    if x.d is not None or m.d is not None:
        raise Unsupported("% on quotients")
    x0 = x
    inf_part = None
    if st.pc.inf:
        t0, t1 = x.n.split()
        if t1:
            x0 = Sym(Poly(dict(t0)))
            inf_part = Sym(Poly(dict(t1)))
    key = ("mod", x0.key(), m.key())
    k = st.memo.get(key)
    if k is None and st.range_oracle is not None and any(st.pc.kinds[v] == "int" for v in x0.n.vars()):
        # x0 looks like an already wrapped angle: if the hypotheses imply 0 <= x0 < m the result is x0 itself
        # (x % m == x on that range) -- this makes re-wrapping syntactically idempotent
        if st.range_oracle(st, x0, m):
            st.memo[key] = Sym(0)
            k = st.memo[key]
    if k is None:
        kv = st.fresh("k", "int")
        k = Sym(Poly.var(kv))
        st.memo[key] = k
        r0 = x0 - m * k
        st.hyps.append(("le", -r0))          # 0 <= r
        st.hyps.append(("lt", r0 - m))       # r < m
    r = x0 - m * k
    if inf_part is not None:
        r = r + inf_part
    return r


def _trig_atoms(key, label):
    st = STATE
    a = st.trig.get(key)
    if a is None:
        cv = st.fresh("cos_" + label, "atom")
        sv = st.fresh("sin_" + label, "atom")
        st.pc.rules[cv] = P.ONE - Poly.var(sv, 2)       # c^2 -> 1 - s^2
        a = (Sym(Poly.var(cv)), Sym(Poly.var(sv)))
        st.trig[key] = a
        st.hyps.append(("eq", a[0] * a[0] + a[1] * a[1] - 1))
    return a


def _cos_sin(x):
    """(cos x, sin x) for an angle expression."""
    x = Sym.lift(x)
    st = _need_state()
    if x.d is not None:
        raise Unsupported("trigonometric function of a quotient")
    pc = st.pc
    c, s = Sym(1), Sym(0)

    def add(ck, sk):
        nonlocal c, s
        c, s = c * ck - s * sk, s * ck + c * sk

    inf_terms = {}
    for m, q in x.n.t.items():
        if any(v in pc.inf for v, _ in m):
            inf_terms[m] = q
            continue
        if not m:
            if q == 0:
                continue
            ck, sk = _trig_atoms(("const", abs(Fraction(q))), "c")
            add(ck, sk if q > 0 else -sk)
            continue
        kinds = [pc.kinds[v] for v, _ in m]
        # 2*pi*k terms vanish, pi*odd constants flip the sign
        if "pi" in kinds:
            others = [(v, e) for v, e in m if pc.kinds[v] != "pi"]
            pexp = [e for v, e in m if pc.kinds[v] == "pi"][0]
            if pexp == 1 and all(pc.kinds[v] == "int" and e == 1 for v, e in others) and len(others) <= 1:
                qf = Fraction(q)
                if qf.denominator == 1:
                    if others:
                        if qf.numerator % 2 == 0:
                            continue
                    else:
                        if qf.numerator % 2 != 0:
                            add(Sym(-1), Sym(0))
                        continue
            raise Unsupported("angle term involving pi: %r" % (Poly({m: q}),))
        qf = Fraction(q)
        if len(m) == 1 and m[0][1] == 1 and qf.denominator == 1:
            v = m[0][0]
            ck, sk = _trig_atoms(("var", v), pc.names[v])
            n = qf.numerator
            if n < 0:
                sk = -sk
                n = -n
            for _ in range(n):
                add(ck, sk)
            continue
        ck, sk = _trig_atoms(("term", m, abs(qf)), "t")
        add(ck, sk if qf > 0 else -sk)
    if inf_terms:
        d = Sym(Poly(inf_terms))
        c, s = c - s * d, s + c * d
    if st.pc.rules:
        c, s = Sym(P.nf(c.n), c.d), Sym(P.nf(s.n), s.d)
    return c, s


def cos(x):
    return _cos_sin(x)[0]


def sin(x):
    return _cos_sin(x)[1]


def atan2(y, x):
    """Fresh angle t with  r*cos t = x, r*sin t = y, r = sqrt(x^2+y^2)."""
    st = _need_state()
    y = Sym.lift(y)
    x = Sym.lift(x)
    key = ("atan2", y.key(), x.key())
    t = st.memo.get(key)
    if t is None:
        v = st.fresh("atan2", "angle")
        t = Sym(Poly.var(v))
        st.memo[key] = t
        r = sqrt(x * x + y * y)
        ct, s_t = _cos_sin(t)
        st.hyps.append(("eq", r * ct - x))
        st.hyps.append(("eq", r * s_t - y))
        pi = st.get_pi()
        st.hyps.append(("le", -pi - t))
        st.hyps.append(("le", t - pi))
        st.memo[("atan2-def", v)] = (x, y, r)
    return t
