"""What the repository sees as scipy.sparse / scipy.sparse.linalg.

lil_matrix is a dense symbolic matrix with slice assignment.  spsolve is a *contract stub*: the
pair (A, b) is recorded as ghost state and the result is whatever the installed solver model
returns (by default fresh symbols dx constrained only through the recorded system).
"""
import types

from . import symnp
from .sym import Sym, Unsupported


class SparseEfficiencyWarning(Warning):
    pass


class lil_matrix(symnp.ndarray):
    def __new__(cls, arg, shape=None, dtype=None, **kw):
        if isinstance(arg, symnp.ndarray):
            return symnp.ndarray._fresh(arg.values(), arg.shape).view(cls)
        if isinstance(arg, tuple) and len(arg) == 2 and all(isinstance(x, int) for x in arg):
            return symnp.zeros(arg).view(cls)
        raise Unsupported("lil_matrix(%r)" % (type(arg),))

    def tocsr(self):
        return self

    def tocsc(self):
        return self

    def toarray(self):
        return symnp.array(self)

    todense = toarray


csr_matrix = lil_matrix
csc_matrix = lil_matrix
dok_matrix = lil_matrix

GHOST = {"calls": [], "model": None}


def reset_ghost(model=None):
    GHOST["calls"] = []
    GHOST["model"] = model


def spsolve(A, b, *a, **k):
    model = GHOST["model"]
    if model is None:
        raise Unsupported("spsolve called without a solver model installed")
    A = symnp.asarray(A)
    b = symnp.asarray(b)
    dx = model(A, b, len(GHOST["calls"]))
    GHOST["calls"].append((symnp.array(A), symnp.array(b), dx))
    return dx


scipy = types.ModuleType("scipy")
sparse = types.ModuleType("scipy.sparse")
sparse_linalg = types.ModuleType("scipy.sparse.linalg")
sparse.lil_matrix = lil_matrix
sparse.csr_matrix = csr_matrix
sparse.csc_matrix = csc_matrix
sparse.SparseEfficiencyWarning = SparseEfficiencyWarning
sparse.linalg = sparse_linalg
sparse_linalg.spsolve = spsolve
scipy.sparse = sparse
