"""Load the *unmodified* python-graphslam sources with numpy/scipy resolved to the symbolic shim
(proving interpreter) or to the real libraries (replay interpreter).

Nothing is extracted, rewritten or dropped: the bytes compiled are the bytes in the working tree
of the repository at the moment of the call; their SHA-256 goes into the evidence.
"""
import hashlib
import importlib
import os
import sys
import types

REPO_DEFAULT = os.environ.get("GSV_REPO", "/repo")

MODULES = [
    "graphslam.util",
    "graphslam.pose.base_pose",
    "graphslam.pose.r2",
    "graphslam.pose.r3",
    "graphslam.pose.se2",
    "graphslam.pose.se3",
    "graphslam.vertex",
    "graphslam.edge.base_edge",
    "graphslam.edge.edge_odometry",
    "graphslam.edge.edge_landmark",
    "graphslam.g2o_parameters",
    "graphslam.graph",
    "graphslam.load",
]


class Repo(types.SimpleNamespace):
    """Namespace with the loaded modules under short names (r.se3, r.graph, ...)."""


def source_hashes(repo):
    out = {}
    root = os.path.join(repo, "graphslam")
    for d, _, fs in os.walk(root):
        for f in sorted(fs):
            if f.endswith(".py"):
                p = os.path.join(d, f)
                with open(p, "rb") as fh:
                    out[os.path.relpath(p, repo)] = hashlib.sha256(fh.read()).hexdigest()
    return out


def _purge():
    for k in list(sys.modules):
        if k == "graphslam" or k.startswith("graphslam."):
            del sys.modules[k]


def load(repo=None, symbolic=True):
    repo = repo or REPO_DEFAULT
    sys.dont_write_bytecode = True
    _purge()
    shim_keys = ("numpy", "numpy.linalg", "scipy", "scipy.sparse", "scipy.sparse.linalg",
                 "matplotlib", "matplotlib.pyplot", "mpl_toolkits", "mpl_toolkits.mplot3d")
    saved = {k: sys.modules[k] for k in shim_keys if k in sys.modules}
    if symbolic:
        from . import symnp, symscipy, symmath
        sys.modules["numpy"] = symnp
        sys.modules["numpy.linalg"] = symnp.linalg
        sys.modules["scipy"] = symscipy.scipy
        sys.modules["scipy.sparse"] = symscipy.sparse
        sys.modules["scipy.sparse.linalg"] = symscipy.sparse_linalg
        # matplotlib must fail to import (the repository handles that); python3-vt has none, but be explicit
        sys.modules["matplotlib"] = None
        sys.modules["matplotlib.pyplot"] = None
        sys.modules["mpl_toolkits"] = None
        sys.modules["mpl_toolkits.mplot3d"] = None
    if sys.path[0] != repo:
        sys.path.insert(0, repo)
    r = Repo()
    r.path = repo
    r.symbolic = symbolic
    try:
        for name in MODULES:
            mod = importlib.import_module(name)
            setattr(r, name.rsplit(".", 1)[1], mod)
    finally:
        if symbolic:
            # the shim stays installed only inside the graphslam modules (they hold references); the
            # rest of the process gets the real libraries back
            for k in shim_keys:
                sys.modules.pop(k, None)
            sys.modules.update(saved)
    if symbolic:
        from . import symmath
        import math as _real_math
        for name in MODULES:
            # every repository module that imported `math` sees the symbolic-aware one
            if getattr(sys.modules[name], "math", None) is _real_math:
                sys.modules[name].math = symmath
        r.np = symnp
    else:
        import numpy
        r.np = numpy
    # sanity: the modules really come from the requested tree
    for name in MODULES:
        mod = sys.modules[name]
        if not os.path.abspath(mod.__file__).startswith(os.path.abspath(repo) + os.sep):
            raise RuntimeError("%s was loaded from %s, not from %s" % (name, mod.__file__, repo))
    r.PoseR2 = r.r2.PoseR2
    r.PoseR3 = r.r3.PoseR3
    r.PoseSE2 = r.se2.PoseSE2
    r.PoseSE3 = r.se3.PoseSE3
    r.Vertex = r.vertex.Vertex
    r.BaseEdge = r.base_edge.BaseEdge
    r.EdgeOdometry = r.edge_odometry.EdgeOdometry
    r.EdgeLandmark = r.edge_landmark.EdgeLandmark
    r.Graph = r.graph.Graph
    r.hashes = source_hashes(repo)
    snapshot_state(r)
    return r


_MISSING = object()
_LRU = type(__import__("functools").lru_cache()(lambda: None))


def _holders():
    """The repository's modules and the classes they define: the places where process-wide state can live."""
    for name in MODULES:
        mod = sys.modules.get(name)
        if mod is None:
            continue
        yield mod
        for v in list(vars(mod).values()):
            if isinstance(v, type) and getattr(v, "__module__", None) == name:
                yield v


def snapshot_state(r):
    """Remember the module- and class-level attributes of the repository as they are right after import."""
    snap = []
    for h in _holders():
        d = dict(vars(h))
        contents = {key: type(v)(v) for key, v in d.items() if type(v) in (dict, list, set) and not key.startswith("__")}
        snap.append((h, d, contents))
    r._state = snap


def restore_state(r):
    """Put module- and class-level state back to what it was right after import (every obligation, every control path and every
    sampled point starts from a freshly imported library: a value cached at module or class level by one run must not reach the
    next; WITHIN a run such state persists and is observed)."""
    for h, d, contents in getattr(r, "_state", ()):
        cur = vars(h)
        for key in list(cur):
            if key not in d and not key.startswith("__"):
                try:
                    delattr(h, key)
                except (AttributeError, TypeError):
                    pass
        for key, v in d.items():
            if key.startswith("__"):
                continue
            if cur.get(key, _MISSING) is not v:
                try:
                    setattr(h, key, v)
                except (AttributeError, TypeError):
                    pass
            if isinstance(v, _LRU):
                v.cache_clear()
        for key, copy in contents.items():
            v = d[key]
            if isinstance(v, dict):
                v.clear()
                v.update(copy)
            elif isinstance(v, list):
                v[:] = copy
            elif isinstance(v, set):
                v.clear()
                v.update(copy)
