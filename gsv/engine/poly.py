"""Sparse multivariate polynomials over Q with

  * first-order jets: variables registered as *infinitesimal* are nilpotent (any monomial of
    total degree >= 2 in them is dropped at multiplication time), which makes
    "derivative at 0 along a perturbation" an exact, purely algebraic operation;
  * normal forms modulo rules  v**2 -> r_v  (unit quaternions, cos/sin pairs, square roots),
    with optional cofactor tracking so that  p - NF(p) = sum_v h_v * (v**2 - r_v)  can be
    exported as a certificate and re-checked by an SMT solver.

A monomial is a tuple of (var, exp) pairs sorted by var (var = small int); a polynomial is a
dict monomial -> coefficient with coefficients int or Fraction (Fractions with denominator 1
are normalised to int so that the common case stays in fast integer arithmetic).
"""
from fractions import Fraction


class PolyCtx:
    """Variable table shared by all polynomials of one obligation."""

    def __init__(self):
        self.names = []
        self.kinds = []
        self.inf = set()          # infinitesimal variables
        self.rules = {}           # var -> Poly : var**2 rewrites to Poly
        self.by_name = {}
        self.new_var("PI", "pi")  # variable 0 in every context: module-level constants such as util.TWO_PI survive a state reset

    def new_var(self, name, kind="real"):
        if name in self.by_name:
            raise KeyError("duplicate variable " + name)
        v = len(self.names)
        self.names.append(name)
        self.kinds.append(kind)
        self.by_name[name] = v
        if kind == "inf":
            self.inf.add(v)
        return v


CTX = PolyCtx()


def reset_ctx():
    global CTX
    CTX = PolyCtx()
    return CTX


def ctx():
    return CTX


def _c(x):
    if type(x) is Fraction and x.denominator == 1:
        return x.numerator
    return x


def to_coeff(x):
    """Exact rational value of a python number."""
    if isinstance(x, bool):
        return int(x)
    if isinstance(x, int):
        return x
    if isinstance(x, Fraction):
        return _c(x)
    if isinstance(x, float):
        if x != x or x in (float("inf"), float("-inf")):
            raise ValueError("non-finite float literal")
        return _c(Fraction(x))
    raise TypeError("not a number: %r" % (type(x),))


def mmul(a, b):
    if not a:
        return b
    if not b:
        return a
    i = j = 0
    la, lb = len(a), len(b)
    out = []
    while i < la and j < lb:
        va, ea = a[i]
        vb, eb = b[j]
        if va == vb:
            out.append((va, ea + eb))
            i += 1
            j += 1
        elif va < vb:
            out.append(a[i])
            i += 1
        else:
            out.append(b[j])
            j += 1
    if i < la:
        out.extend(a[i:])
    if j < lb:
        out.extend(b[j:])
    return tuple(out)


class Poly:
    __slots__ = ("t", "_split")

    def __init__(self, terms=None):
        self.t = terms if terms is not None else {}
        self._split = None

    # ---- constructors
    @staticmethod
    def const(c):
        c = to_coeff(c)
        return Poly({(): c}) if c != 0 else Poly()

    @staticmethod
    def var(v, e=1):
        return Poly({((v, e),): 1})

    # ---- queries
    def is_zero(self):
        return not self.t

    def is_const(self):
        return not self.t or (len(self.t) == 1 and () in self.t)

    def const_value(self):
        if not self.t:
            return 0
        return self.t[()]

    def vars(self):
        s = set()
        for m in self.t:
            for v, _ in m:
                s.add(v)
        return s

    def degree(self):
        return max((sum(e for _, e in m) for m in self.t), default=0)

    def __len__(self):
        return len(self.t)

    def __eq__(self, other):
        if not isinstance(other, Poly):
            other = Poly.const(other)
        return self.t == other.t

    def __ne__(self, other):
        return not self.__eq__(other)

    def __hash__(self):
        return hash(frozenset(self.t.items()))

    def key(self):
        return frozenset(self.t.items())

    # ---- jets
    def split(self):
        """(terms without infinitesimals, terms with infinitesimal degree exactly 1)."""
        if self._split is None:
            inf = CTX.inf
            t0, t1 = {}, {}
            for m, c in self.t.items():
                hit = False
                for v, _ in m:
                    if v in inf:
                        hit = True
                        break
                (t1 if hit else t0)[m] = c
            self._split = (t0, t1)
        return self._split

    # ---- arithmetic
    def __add__(self, o):
        if not isinstance(o, Poly):
            o = Poly.const(o)
        if len(self.t) < len(o.t):
            self, o = o, self
        r = dict(self.t)
        for m, c in o.t.items():
            n = r.get(m)
            if n is None:
                r[m] = c
            else:
                n = _c(n + c)
                if n == 0:
                    del r[m]
                else:
                    r[m] = n
        return Poly(r)

    __radd__ = __add__

    def __neg__(self):
        return Poly({m: -c for m, c in self.t.items()})

    def __sub__(self, o):
        if not isinstance(o, Poly):
            o = Poly.const(o)
        r = dict(self.t)
        for m, c in o.t.items():
            n = r.get(m)
            if n is None:
                r[m] = -c
            else:
                n = _c(n - c)
                if n == 0:
                    del r[m]
                else:
                    r[m] = n
        return Poly(r)

    def __rsub__(self, o):
        return Poly.const(o) - self

    def scale(self, k):
        k = to_coeff(k)
        if k == 0:
            return Poly()
        if k == 1:
            return self
        return Poly({m: _c(c * k) for m, c in self.t.items()})

    @staticmethod
    def _mul_terms(ta, tb, r):
        for ma, ca in ta.items():
            for mb, cb in tb.items():
                m = mmul(ma, mb)
                c = ca * cb
                n = r.get(m)
                if n is None:
                    r[m] = _c(c)
                else:
                    n = _c(n + c)
                    if n == 0:
                        del r[m]
                    else:
                        r[m] = n

    def __mul__(self, o):
        if not isinstance(o, Poly):
            return self.scale(o)
        if not self.t or not o.t:
            return Poly()
        if o.is_const():
            return self.scale(o.const_value())
        if self.is_const():
            return o.scale(self.const_value())
        r = {}
        if CTX.inf:
            a0, a1 = self.split()
            b0, b1 = o.split()
            Poly._mul_terms(a0, b0, r)
            if b1:
                Poly._mul_terms(a0, b1, r)
            if a1:
                Poly._mul_terms(a1, b0, r)
        else:
            Poly._mul_terms(self.t, o.t, r)
        return Poly(r)

    __rmul__ = __mul__

    def __pow__(self, n):
        if not isinstance(n, int) or n < 0:
            raise TypeError("polynomial power needs a non-negative int")
        r = Poly.const(1)
        b = self
        while n:
            if n & 1:
                r = r * b
            n >>= 1
            if n:
                b = b * b
        return r

    # ---- calculus / substitution
    def diff(self, v):
        r = {}
        for m, c in self.t.items():
            for i, (vv, e) in enumerate(m):
                if vv == v:
                    nm = m[:i] + (((vv, e - 1),) if e > 1 else ()) + m[i + 1:]
                    r[nm] = _c(r.get(nm, 0) + c * e)
                    if r[nm] == 0:
                        del r[nm]
                    break
        return Poly(r)

    def coeff_linear(self, v):
        """Coefficient polynomial of v**1 (terms where v has exponent exactly 1, v removed)."""
        r = {}
        for m, c in self.t.items():
            for i, (vv, e) in enumerate(m):
                if vv == v:
                    if e == 1:
                        r[m[:i] + m[i + 1:]] = c
                    break
        return Poly(r)

    def drop_vars(self, vs):
        """Set all variables in vs to zero."""
        vs = set(vs)
        return Poly({m: c for m, c in self.t.items() if not any(v in vs for v, _ in m)})

    def subs(self, mapping):
        """Substitute var -> Poly (or number) for the variables in mapping."""
        if not mapping:
            return self
        r = Poly()
        for m, c in self.t.items():
            keep = []
            term = None
            for v, e in m:
                if v in mapping:
                    rep = mapping[v]
                    if not isinstance(rep, Poly):
                        rep = Poly.const(rep)
                    f = rep ** e
                    term = f if term is None else term * f
                else:
                    keep.append((v, e))
            base = Poly({tuple(keep): c})
            r = r + (base if term is None else base * term)
        return r

    def eval(self, point):
        """Numeric value at point: dict var -> number (float or Fraction)."""
        tot = 0
        for m, c in self.t.items():
            x = c
            for v, e in m:
                x = x * point[v] ** e
            tot = tot + x
        return tot

    # ---- printing
    def __repr__(self):
        if not self.t:
            return "0"
        names = CTX.names
        parts = []
        for m, c in sorted(self.t.items(), key=lambda kv: (sum(e for _, e in kv[0]), kv[0])):
            mono = "*".join((names[v] if v < len(names) else "v%d" % v) + ("^%d" % e if e > 1 else "") for v, e in m)
            if not mono:
                parts.append(str(c))
            elif c == 1:
                parts.append(mono)
            elif c == -1:
                parts.append("-" + mono)
            else:
                parts.append("%s*%s" % (c, mono))
        return " + ".join(parts).replace("+ -", "- ")


ZERO = Poly()
ONE = Poly.const(1)


def nf(p, rules=None, cof=None):
    """Normal form of p modulo the rules v**2 -> rules[v].

    If cof is a dict it receives, per rule variable v, the cofactor polynomial h_v with
        p  ==  NF(p) + sum_v h_v * (v**2 - rules[v])        (an identity in the free ring;
    with infinitesimals present, an identity modulo the jet truncation).
    """
    if rules is None:
        rules = CTX.rules
    if not rules:
        return p
    work = p
    while True:
        clean = {}
        acc = None
        for m, c in work.t.items():
            hit = None
            for i, (v, e) in enumerate(m):
                if e >= 2 and v in rules:
                    hit = i
                    break
            if hit is None:
                clean[m] = c
                continue
            v, e = m[hit]
            rest = m[:hit] + (((v, e - 2),) if e > 2 else ()) + m[hit + 1:]
            h = Poly({rest: c})
            if cof is not None:
                cof[v] = cof[v] + h if v in cof else h
            term = h * rules[v]
            acc = term if acc is None else acc + term
        if acc is None:
            return work
        work = Poly(clean) + acc
