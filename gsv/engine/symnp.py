"""The module that the repository sources see as ``numpy`` while they are executed symbolically.

Only the entry points python-graphslam uses (plus a margin for harmless refactors) exist;
anything else raises Unsupported, which makes the obligation *undecided*, never *violated*.

Aliasing follows numpy: an ndarray is (storage, list of flat positions in that storage,
shape).  Basic slices, ``.T``/``transpose``, ``view(cls)``, ``reshape``, ``ravel`` and ``asarray`` of an
array share the storage of their base; fancy indexing, ``array()``, ``copy()`` and arithmetic
create fresh storage; in-place operators and item assignment write through to the shared
storage.  Every write is logged (storage id, position) for the frame conditions of C15.
Slicing an instance of a subclass yields an instance of that subclass (as numpy does).
"""
import itertools
import math as _math
import sys
import types
from fractions import Fraction

from . import sym as S
from .sym import Sym, SymBool, Unsupported

float64 = float
float32 = float
int64 = int
int32 = int
newaxis = None
nan = float("nan")
inf = float("inf")
__version__ = "gsv-shim"

_STORAGE_COUNTER = itertools.count(1)
WRITE_LOG = []          # (storage id, flat position)
LOG_WRITES = [False]


from .poly import Poly as _Poly
import builtins as _builtins

_abs = _builtins.abs
pi = Sym(_Poly.var(0))      # variable 0 of every symbolic state is PI (see poly.PolyCtx)


def __getattr__(name):
    raise Unsupported("numpy.%s is not modelled by the symbolic shim" % name)


class Storage:
    __slots__ = ("d", "sid")

    def __init__(self, data):
        self.d = data
        self.sid = next(_STORAGE_COUNTER)

    def set(self, pos, val):
        if LOG_WRITES[0]:
            WRITE_LOG.append((self.sid, pos))
        self.d[pos] = val


def _scalar(x):
    """Coerce a python/Sym scalar to the element type (Sym)."""
    if isinstance(x, Sym):
        return x
    if isinstance(x, (bool, int, float, Fraction)):
        return Sym(x)
    if isinstance(x, ndarray) and x.shape == ():
        return x._st.d[x._ix[0]]
    if isinstance(x, ndarray) and x.size == 1:
        return x._st.d[x._ix[0]]
    if isinstance(x, str):
        # numpy converts strings when a float dtype is requested; number tokens read back as their symbols
        from . import tokens
        v = tokens.sym_float(x)
        return v if isinstance(v, Sym) else Sym(v)
    raise Unsupported("cannot store %r in an array" % (type(x),))


def _prod(shape):
    r = 1
    for s in shape:
        r *= s
    return r


def _nested_shape(obj):
    if isinstance(obj, ndarray):
        return obj.shape
    if isinstance(obj, (list, tuple)):
        if len(obj) == 0:
            return (0,)
        sub = _nested_shape(obj[0])
        for o in obj[1:]:
            if _nested_shape(o) != sub:
                raise ValueError("setting an array element with a sequence (inhomogeneous shape)")
        return (len(obj),) + sub
    if isinstance(obj, (types.GeneratorType, range, map, zip)):
        return _nested_shape(list(obj))
    return ()


def _flatten(obj, out):
    if isinstance(obj, ndarray):
        out.extend(obj._st.d[i] for i in obj._ix)
    elif isinstance(obj, (list, tuple)):
        for o in obj:
            _flatten(o, out)
    elif isinstance(obj, (types.GeneratorType, range, map, zip)):
        _flatten(list(obj), out)
    else:
        out.append(_scalar(obj))


class BoolArray:
    """Result of an element-wise comparison: (symbolic) booleans with a shape.  all() / any() / bool() decide them."""

    def __init__(self, vals, shape):
        self.vals = list(vals)
        self.shape = tuple(shape)

    @property
    def size(self):
        return len(self.vals)

    ndim = property(lambda self: len(self.shape))

    def __len__(self):
        if not self.shape:
            raise TypeError("len() of unsized object")
        return self.shape[0]

    def values(self):
        return list(self.vals)

    def all(self, axis=None):
        for v in self.vals:
            if not bool(v):
                return False
        return True

    def any(self, axis=None):
        for v in self.vals:
            if bool(v):
                return True
        return False

    def sum(self, axis=None):
        return _builtins.sum(1 for v in self.vals if bool(v))

    def __bool__(self):
        if len(self.vals) != 1:
            raise ValueError("The truth value of an array with more than one element is ambiguous. Use a.any() or a.all()")
        return bool(self.vals[0])

    def __invert__(self):
        return BoolArray([(~v if isinstance(v, SymBool) else (not v)) for v in self.vals], self.shape)

    def _zip(self, o, f):
        if isinstance(o, BoolArray):
            if o.shape != self.shape:
                raise Unsupported("broadcasting of boolean arrays")
            return BoolArray([f(a, b) for a, b in zip(self.vals, o.vals)], self.shape)
        return BoolArray([f(a, o) for a in self.vals], self.shape)

    def __and__(self, o):
        return self._zip(o, lambda a, b: a & b if isinstance(a, SymBool) or isinstance(b, SymBool) else (a and b))

    def __or__(self, o):
        return self._zip(o, lambda a, b: a | b if isinstance(a, SymBool) or isinstance(b, SymBool) else (a or b))

    __rand__ = __and__
    __ror__ = __or__

    def __iter__(self):
        if len(self.shape) != 1:
            raise Unsupported("iteration over a multi-dimensional boolean array")
        return iter(self.vals)

    def __getitem__(self, i):
        if isinstance(i, int) and len(self.shape) == 1:
            return self.vals[i]
        raise Unsupported("indexing a boolean array")

    def __repr__(self):
        return "BoolArray(%r)" % (self.shape,)


class SymBytes:
    """Surrogate of ndarray.tobytes() for symbolic contents: 8 positions per element, hashable, comparable, sliceable on element
    boundaries, concatenable."""
    __slots__ = ("keys",)

    def __init__(self, keys):
        self.keys = tuple(keys)

    def __len__(self):
        return 8 * len(self.keys)

    def __getitem__(self, item):
        if not isinstance(item, slice) or item.step not in (None, 1):
            raise Unsupported("indexing the bytes of a symbolic array other than by an element-aligned slice")
        start, stop, _ = item.indices(len(self))
        if start % 8 or stop % 8:
            raise Unsupported("slice of the bytes of a symbolic array that is not aligned to elements")
        return SymBytes(self.keys[start // 8: _builtins.max(stop, start) // 8])

    def __add__(self, other):
        if isinstance(other, SymBytes):
            return SymBytes(self.keys + other.keys)
        return NotImplemented

    def __eq__(self, other):
        return isinstance(other, SymBytes) and self.keys == other.keys

    def __ne__(self, other):
        return not self.__eq__(other)

    def __hash__(self):
        return hash(self.keys)

    def __repr__(self):
        return "SymBytes(%d elements)" % len(self.keys)


class ndarray:
    __array_priority__ = 0

    def __new__(cls, shape=None, dtype=None, **kw):
        o = object.__new__(cls)
        if shape is not None:
            if isinstance(shape, int):
                shape = (shape,)
            n = _prod(shape)
            o._st = Storage([Sym(0)] * n)
            o._ix = list(range(n))
            o.shape = tuple(shape)
        return o

    def __init__(self, *a, **k):
        pass

    @classmethod
    def _make(cls, st, ix, shape):
        o = object.__new__(cls)
        o._st = st
        o._ix = ix
        o.shape = tuple(shape)
        return o

    @classmethod
    def _fresh(cls, data, shape):
        return cls._make(Storage(list(data)), list(range(len(data))), shape)

    # ---- basic attributes
    @property
    def ndim(self):
        return len(self.shape)

    @property
    def size(self):
        return len(self._ix)

    @property
    def dtype(self):
        return float64

    @property
    def T(self):
        return transpose(self)

    @property
    def flat(self):
        return iter(self._st.d[i] for i in self._ix)

    @property
    def base(self):
        return self._st

    def __len__(self):
        if not self.shape:
            raise TypeError("len() of unsized object")
        return self.shape[0]

    def __iter__(self):
        if not self.shape:
            raise TypeError("iteration over a 0-d array")
        for i in range(self.shape[0]):
            yield self[i]

    def values(self):
        return [self._st.d[i] for i in self._ix]

    def tolist(self):
        if self.ndim == 0:
            return self._st.d[self._ix[0]]
        if self.ndim == 1:
            return self.values()
        return [row.tolist() for row in self]

    def item(self, *a):
        if a:
            return self[a if len(a) > 1 else a[0]]
        if self.size != 1:
            raise ValueError("can only convert an array of size 1 to a Python scalar")
        return self._st.d[self._ix[0]]

    def __float__(self):
        if self.size != 1:
            raise TypeError("only length-1 arrays can be converted to Python scalars")
        return float(self._st.d[self._ix[0]])

    def __bool__(self):
        if self.size != 1:
            raise ValueError("The truth value of an array with more than one element is ambiguous.")
        return bool(self._st.d[self._ix[0]])

    def __repr__(self):
        return "%s(%r)" % (type(self).__name__, self.tolist())

    def __str__(self):
        if self.ndim == 0:
            return str(self._st.d[self._ix[0]])
        return "[" + " ".join(str(x) for x in self) + "]"

    def __format__(self, spec):
        if self.ndim == 0:
            return format(self._st.d[self._ix[0]], spec)
        raise TypeError("unsupported format string passed to numpy.ndarray.__format__")

    # ---- views and copies
    def view(self, cls=None, **kw):
        if cls is None:
            cls = type(self)
        if not (isinstance(cls, type) and issubclass(cls, ndarray)):
            raise Unsupported("ndarray.view(%r)" % (cls,))
        return cls._make(self._st, self._ix, self.shape)

    def copy(self, order="C"):
        return type(self)._fresh(self.values(), self.shape)

    def astype(self, dtype, **kw):
        return ndarray._fresh(self.values(), self.shape)

    def reshape(self, *shape, **kw):
        if len(shape) == 1 and isinstance(shape[0], (tuple, list)):
            shape = tuple(shape[0])
        shape = list(shape)
        if shape.count(-1) == 1:
            known = _prod([s for s in shape if s != -1])
            shape[shape.index(-1)] = self.size // known if known else 0
        if _prod(shape) != self.size:
            raise ValueError("cannot reshape array of size %d into shape %r" % (self.size, tuple(shape)))
        return type(self)._make(self._st, self._ix, tuple(shape))

    def ravel(self):
        return ndarray._make(self._st, self._ix, (self.size,))

    def flatten(self):
        return ndarray._fresh(self.values(), (self.size,))

    def transpose(self, *axes):
        return transpose(self)

    def setflags(self, write=None, align=None, uic=None):
        """Only write=False has an effect: the array (this view) becomes read-only, as in numpy."""
        if write is not None:
            self._readonly = not write

    @property
    def flags(self):
        return types.SimpleNamespace(writeable=not getattr(self, "_readonly", False), owndata=True, c_contiguous=True)

    def tobytes(self, order="C"):
        """A hashable surrogate of the raw bytes: equal contents <=> equal result (used by caches keyed on array contents).
        Every element occupies 8 positions, like a float64, so that slices aligned to elements select elements."""
        return SymBytes(v.key() for v in self.values())

    def fill(self, v):
        v = _scalar(v)
        for i in self._ix:
            self._st.set(i, v)

    # ---- indexing
    def _normalize_key(self, key):
        """Return (list of flat positions within self._ix order, result shape, is_view) or a scalar position."""
        if not isinstance(key, tuple):
            key = (key,)
        # boolean / integer-array (fancy) indexing
        if any(isinstance(k, (list, ndarray)) or (isinstance(k, tuple)) for k in key):
            idx_lists = []
            for k in key:
                if isinstance(k, ndarray):
                    idx_lists.append([int(x) for x in k.values()])
                elif isinstance(k, (list, tuple)):
                    idx_lists.append([int(x) for x in k])
                else:
                    raise Unsupported("mixed fancy/basic indexing")
            if len(idx_lists) > self.ndim:
                raise IndexError("too many indices for array")
            n = len(idx_lists[0])
            if any(len(l) != n for l in idx_lists):
                raise IndexError("shape mismatch: indexing arrays could not be broadcast together")
            if len(idx_lists) != self.ndim:
                raise Unsupported("partial fancy indexing")
            strides = self._strides()
            pos = []
            for t in zip(*idx_lists):
                off = 0
                for ax, (i, s) in enumerate(zip(t, strides)):
                    dim = self.shape[ax]
                    if i < -dim or i >= dim:
                        raise IndexError("index %d is out of bounds for axis %d with size %d" % (i, ax, dim))
                    off += (i % dim) * s
                pos.append(off)
            return pos, (n,), False
        if len(key) > self.ndim:
            if any(k is None for k in key):
                raise Unsupported("newaxis indexing")
            raise IndexError("too many indices for array: array is %d-dimensional, but %d were indexed" % (self.ndim, len(key)))
        if any(k is Ellipsis for k in key):
            i = key.index(Ellipsis)
            key = key[:i] + (slice(None),) * (self.ndim - len(key) + 1) + key[i + 1:]
        key = key + (slice(None),) * (self.ndim - len(key))
        ranges = []
        shape = []
        for ax, k in enumerate(key):
            dim = self.shape[ax]
            if isinstance(k, slice):
                r = range(dim)[k]
                ranges.append(r)
                shape.append(len(r))
            elif k is None:
                raise Unsupported("newaxis indexing")
            else:
                if isinstance(k, Sym):
                    k = k.__index__()
                if isinstance(k, float):
                    raise IndexError("only integers, slices (`:`), ellipsis (`...`), numpy.newaxis (`None`) and integer or boolean arrays are valid indices")
                k = k.__index__()
                if k < -dim or k >= dim:
                    raise IndexError("index %d is out of bounds for axis %d with size %d" % (k, ax, dim))
                ranges.append([k % dim])
        strides = self._strides()
        pos = [sum(i * s for i, s in zip(t, strides)) for t in itertools.product(*ranges)]
        return pos, tuple(shape), True

    def _strides(self):
        st = []
        acc = 1
        for d in reversed(self.shape):
            st.append(acc)
            acc *= d
        return list(reversed(st))

    def __getitem__(self, key):
        pos, shape, is_view = self._normalize_key(key)
        ix = [self._ix[p] for p in pos]
        if shape == () and is_view:
            return self._st.d[ix[0]]
        if is_view:
            return type(self)._make(self._st, ix, shape)
        return ndarray._fresh([self._st.d[i] for i in ix], shape)

    def __setitem__(self, key, val):
        if getattr(self, "_readonly", False):
            raise ValueError("assignment destination is read-only")
        pos, shape, _ = self._normalize_key(key)
        ix = [self._ix[p] for p in pos]
        vals = _broadcast_values(val, shape)
        for i, v in zip(ix, vals):
            self._st.set(i, v)

    # ---- arithmetic
    def _binary(self, other, f, reflected=False):
        if isinstance(other, (ndarray, list, tuple)):
            if not isinstance(other, ndarray):
                other = array(other)
            shape, av, bv = _broadcast(self, other)
        elif isinstance(other, (Sym, int, float, Fraction)):
            o = _scalar(other)
            shape, av, bv = self.shape, self.values(), [o] * self.size
        else:
            return NotImplemented
        if reflected:
            data = [f(b, a) for a, b in zip(av, bv)]
        else:
            data = [f(a, b) for a, b in zip(av, bv)]
        cls = _result_class(self, other)
        return cls._fresh(data, shape)

    def __add__(self, o):
        return self._binary(o, lambda a, b: a + b)

    def __radd__(self, o):
        return self._binary(o, lambda a, b: a + b, True)

    def __sub__(self, o):
        return self._binary(o, lambda a, b: a - b)

    def __rsub__(self, o):
        return self._binary(o, lambda a, b: a - b, True)

    def __mul__(self, o):
        return self._binary(o, lambda a, b: a * b)

    def __rmul__(self, o):
        return self._binary(o, lambda a, b: a * b, True)

    def __truediv__(self, o):
        return self._binary(o, lambda a, b: a / b)

    def __rtruediv__(self, o):
        return self._binary(o, lambda a, b: a / b, True)

    def __pow__(self, o):
        return self._binary(o, lambda a, b: a ** b)

    def __matmul__(self, o):
        return dot(self, o)

    def __rmatmul__(self, o):
        return dot(o, self)

    def __neg__(self):
        return type(self)._fresh([-a for a in self.values()], self.shape)

    def __pos__(self):
        return type(self)._fresh(self.values(), self.shape)

    def __abs__(self):
        return type(self)._fresh([_abs(a) for a in self.values()], self.shape)

    def _inplace(self, other, f):
        r = ndarray._binary(self, other, f)
        if r is NotImplemented:
            return r
        if r.shape != self.shape:
            raise ValueError("non-broadcastable output operand with shape %r doesn't match the broadcast shape %r" % (self.shape, r.shape))
        for i, v in zip(self._ix, r.values()):
            self._st.set(i, v)
        return self

    def __iadd__(self, o):
        return self._inplace(o, lambda a, b: a + b)

    def __isub__(self, o):
        return self._inplace(o, lambda a, b: a - b)

    def __imul__(self, o):
        return self._inplace(o, lambda a, b: a * b)

    def __itruediv__(self, o):
        return self._inplace(o, lambda a, b: a / b)

    # ---- comparisons: element-wise, giving a BoolArray of (symbolic) booleans; reducing it with all()/any() decides them
    def _compare(self, o, f):
        if isinstance(o, (list, tuple)):
            o = array(o)
        if isinstance(o, ndarray):
            shape, av, bv = _broadcast(self, o) if self.shape != o.shape else (self.shape, self.values(), o.values())
            return BoolArray([f(x, y) for x, y in zip(av, bv)], tuple(shape))
        y = _scalar(o)
        return BoolArray([f(x, y) for x in self.values()], self.shape)

    def __eq__(self, o):
        return self._compare(o, lambda x, y: x == y)

    def __ne__(self, o):
        return self._compare(o, lambda x, y: x != y)

    def __lt__(self, o):
        return self._compare(o, lambda x, y: x < y)

    def __le__(self, o):
        return self._compare(o, lambda x, y: x <= y)

    def __gt__(self, o):
        return self._compare(o, lambda x, y: x > y)

    def __ge__(self, o):
        return self._compare(o, lambda x, y: x >= y)

    __hash__ = object.__hash__

    # ---- reductions
    def sum(self, axis=None):
        return sum_(self, axis)

    def any(self, axis=None):
        return any(self)

    def all(self, axis=None):
        return all(self)

    def max(self, axis=None):
        vals = self.values()
        m = vals[0]
        for v in vals[1:]:
            if v > m:
                m = v
        return m

    def min(self, axis=None):
        vals = self.values()
        m = vals[0]
        for v in vals[1:]:
            if v < m:
                m = v
        return m

    def dot(self, o):
        return dot(self, o)

    def trace(self):
        return trace(self)


def _result_class(a, b):
    """numpy: the result is an instance of the most derived operand class (array priority being equal)."""
    ca = type(a)
    cb = type(b) if isinstance(b, ndarray) else ndarray
    if issubclass(cb, ca) and cb is not ca:
        return cb
    return ca


def _broadcast(a, b):
    if a.shape == b.shape:
        return a.shape, a.values(), b.values()
    if b.size == 1 and b.ndim <= a.ndim:
        return a.shape, a.values(), b.values() * a.size
    if a.size == 1 and a.ndim <= b.ndim:
        return b.shape, a.values() * b.size, b.values()
    # trailing-dimension broadcasting for 2-D with 1-D / column vectors
    sa = (1,) * (_builtins.max(a.ndim, b.ndim) - a.ndim) + a.shape
    sb = (1,) * (_builtins.max(a.ndim, b.ndim) - b.ndim) + b.shape
    out = []
    for x, y in zip(sa, sb):
        if x == y or y == 1:
            out.append(x)
        elif x == 1:
            out.append(y)
        else:
            raise ValueError("operands could not be broadcast together with shapes %r %r" % (a.shape, b.shape))

    def expand(arr, s):
        vals = arr.values()
        strides = []
        acc = 1
        for d in reversed(s):
            strides.append(acc)
            acc *= d
        strides = list(reversed(strides))
        res = []
        for t in itertools.product(*[range(d) for d in out]):
            off = sum((i if d != 1 else 0) * st for i, d, st in zip(t, s, strides))
            res.append(vals[off])
        return res
    return tuple(out), expand(a, sa), expand(b, sb)


def _broadcast_values(val, shape):
    n = _prod(shape)
    if isinstance(val, (list, tuple, types.GeneratorType)):
        val = array(val)
    if isinstance(val, ndarray):
        if val.shape == tuple(shape):
            return val.values()
        if val.size == 1:
            return val.values() * n
        # drop leading 1-dims / broadcast along leading axes
        vs = tuple(d for d in val.shape)
        if len(vs) <= len(shape) and tuple(shape[len(shape) - len(vs):]) == vs:
            return val.values() * (n // val.size)
        if _prod(vs) == n and [d for d in vs if d != 1] == [d for d in shape if d != 1]:
            return val.values()
        raise ValueError("could not broadcast input array from shape %r into shape %r" % (val.shape, tuple(shape)))
    return [_scalar(val)] * n


# ------------------------------------------------------------------ construction

def _to_float64(a):
    """dtype=float64 was requested: integers that are not representable as a double are rounded, exactly as numpy does
    (this is how an id that travels through a float array gets corrupted)."""
    d = a._st.d
    for i in a._ix:
        x = d[i]
        if x.d is None and x.n.is_const():
            c = x.n.const_value()
            if isinstance(c, int) and (c > 2 ** 53 or c < -2 ** 53):
                d[i] = Sym(Fraction(float(c)))
    return a


def array(obj, dtype=None, copy=True, **kw):
    if dtype in (float, float64):
        return _to_float64(_array(obj))
    return _array(obj)


def _array(obj):
    if isinstance(obj, ndarray):
        return ndarray._fresh(obj.values(), obj.shape)
    if isinstance(obj, (Sym, int, float, Fraction)):
        return ndarray._fresh([_scalar(obj)], ())
    if isinstance(obj, (types.GeneratorType, range, map, zip)):
        obj = list(obj)
    if not isinstance(obj, (list, tuple)):
        raise Unsupported("np.array(%r)" % (type(obj),))
    shape = _nested_shape(obj)
    data = []
    _flatten(obj, data)
    if len(data) != _prod(shape):
        raise ValueError("inhomogeneous array")
    return ndarray._fresh(data, shape)


def asarray(obj, dtype=None, **kw):
    if isinstance(obj, ndarray):
        if type(obj) is ndarray:
            return obj
        return ndarray._make(obj._st, obj._ix, obj.shape)      # base-class view of the same storage
    return array(obj, dtype=dtype)


def asanyarray(obj, dtype=None):
    if isinstance(obj, ndarray):
        return obj
    return array(obj)


def copy(a):
    return array(a)


def zeros(shape, dtype=None, **kw):
    if isinstance(shape, int):
        shape = (shape,)
    shape = tuple(int(s) for s in shape)
    return ndarray._fresh([Sym(0)] * _prod(shape), shape)


def zeros_like(a, dtype=None, **kw):
    return zeros(asarray(a).shape)


def ones_like(a, dtype=None, **kw):
    return ones(asarray(a).shape)


def empty_like(a, dtype=None, **kw):
    return zeros(asarray(a).shape)


def full(shape, fill_value, dtype=None, **kw):
    z = zeros(shape)
    z.fill(fill_value)
    return z


def full_like(a, fill_value, dtype=None, **kw):
    return full(asarray(a).shape, fill_value)


def ones(shape, dtype=None, **kw):
    if isinstance(shape, int):
        shape = (shape,)
    shape = tuple(int(s) for s in shape)
    return ndarray._fresh([Sym(1)] * _prod(shape), shape)


def empty(shape, dtype=None, **kw):
    return zeros(shape)


def zeros_like(a, dtype=None):
    return zeros(asarray(a).shape)


def ones_like(a, dtype=None):
    return ones(asarray(a).shape)


def full(shape, v, dtype=None):
    if isinstance(shape, int):
        shape = (shape,)
    return ndarray._fresh([_scalar(v)] * _prod(shape), tuple(shape))


def eye(n, m=None, k=0, dtype=None):
    m = n if m is None else m
    return ndarray._fresh([Sym(1) if j - i == k else Sym(0) for i in range(n) for j in range(m)], (n, m))


def identity(n, dtype=None):
    return eye(n)


def diag(v, k=0):
    v = asarray(v)
    if v.ndim == 1:
        n = v.shape[0]
        vals = v.values()
        return ndarray._fresh([vals[i] if i == j else Sym(0) for i in range(n) for j in range(n)], (n, n))
    n = _builtins.min(v.shape)
    return ndarray._fresh([v[i, i] for i in range(n)], (n,))


def arange(*a):
    return ndarray._fresh([Sym(i) for i in range(*a)], (len(range(*a)),))


def triu_indices(n, k=0, m=None):
    m = n if m is None else m
    rows = [i for i in range(n) for j in range(m) if j - i >= k]
    cols = [j for i in range(n) for j in range(m) if j - i >= k]
    return (rows, cols)


def tril_indices(n, k=0, m=None):
    m = n if m is None else m
    rows = [i for i in range(n) for j in range(m) if j - i <= k]
    cols = [j for i in range(n) for j in range(m) if j - i <= k]
    return (rows, cols)


def diag_indices(n):
    return (list(range(n)), list(range(n)))


# ------------------------------------------------------------------ element-wise and linear algebra

def _unary(f, x):
    if isinstance(x, ndarray):
        return ndarray._fresh([f(a) for a in x.values()], x.shape)
    if isinstance(x, (list, tuple)):
        return _unary(f, array(x))
    return f(_scalar(x))


def cos(x):
    return _unary(S.cos, x)


def sin(x):
    return _unary(S.sin, x)


def sqrt(x):
    return _unary(S.sqrt, x)


def absolute(x):
    return _unary(_abs, x)


abs = absolute          # noqa: A001  (numpy exports np.abs)


def square(x):
    return _unary(lambda a: a * a, x)


def _with_out(res, out):
    if out is None:
        return res
    if not isinstance(out, ndarray) or not isinstance(res, ndarray) or out.shape != res.shape:
        raise Unsupported("out= argument of an unsupported shape")
    for i, v in zip(out._ix, res.values()):
        out._st.set(i, v)
    return out


def negative(x, out=None):
    return _with_out(_unary(lambda a: -a, x), out)


def fill_diagonal(a, val, wrap=False):
    if not isinstance(a, ndarray) or a.ndim != 2:
        raise Unsupported("fill_diagonal of a non-2-d array")
    n, m = a.shape
    vals = _broadcast_values(val, (_builtins.min(n, m),)) if isinstance(val, (ndarray, list, tuple)) else [_scalar(val)] * _builtins.min(n, m)
    for i in range(_builtins.min(n, m)):
        a._st.set(a._ix[i * m + i], vals[i])


def arctan2(y, x):
    return S.atan2(_scalar(y), _scalar(x))


def _binary_fn(f):
    def g(a, b, out=None):
        return _with_out(g0(a, b), out)

    def g0(a, b):
        if not isinstance(a, ndarray):
            a = array(a) if isinstance(a, (list, tuple)) else a
        if isinstance(a, ndarray):
            return ndarray._binary(a, b, f)
        if isinstance(b, (list, tuple)):
            b = array(b)
        if isinstance(b, ndarray):
            return ndarray._binary(b, a, f, True)
        return f(_scalar(a), _scalar(b))
    return g


add = _binary_fn(lambda a, b: a + b)
subtract = _binary_fn(lambda a, b: a - b)
multiply = _binary_fn(lambda a, b: a * b)
divide = _binary_fn(lambda a, b: a / b)
true_divide = divide
power = _binary_fn(lambda a, b: a ** b)


def transpose(a, axes=None):
    a = asanyarray(a)
    if a.ndim <= 1:
        return type(a)._make(a._st, a._ix, a.shape)
    if a.ndim != 2:
        raise Unsupported("transpose of a %d-d array" % a.ndim)
    n, m = a.shape
    return type(a)._make(a._st, [a._ix[i * m + j] for j in range(m) for i in range(n)], (m, n))


def _sum_terms(terms):
    it = iter(terms)
    try:
        acc = next(it)
    except StopIteration:
        return Sym(0)
    for t in it:
        acc = acc + t
    return acc


def dot(a, b):
    if not isinstance(a, ndarray):
        a = array(a) if isinstance(a, (list, tuple)) else a
    if not isinstance(b, ndarray):
        b = array(b) if isinstance(b, (list, tuple)) else b
    if not isinstance(a, ndarray) or not isinstance(b, ndarray) or a.ndim == 0 or b.ndim == 0:
        return multiply(a, b)
    av, bv = a.values(), b.values()
    if a.ndim == 1 and b.ndim == 1:
        if a.shape != b.shape:
            raise ValueError("shapes %r and %r not aligned" % (a.shape, b.shape))
        return _sum_terms(x * y for x, y in zip(av, bv))
    if a.ndim == 1 and b.ndim == 2:
        n, m = b.shape
        if a.shape[0] != n:
            raise ValueError("shapes %r and %r not aligned" % (a.shape, b.shape))
        return ndarray._fresh([_sum_terms(av[i] * bv[i * m + j] for i in range(n)) for j in range(m)], (m,))
    if a.ndim == 2 and b.ndim == 1:
        n, m = a.shape
        if b.shape[0] != m:
            raise ValueError("shapes %r and %r not aligned" % (a.shape, b.shape))
        return ndarray._fresh([_sum_terms(av[i * m + j] * bv[j] for j in range(m)) for i in range(n)], (n,))
    if a.ndim == 2 and b.ndim == 2:
        n, m = a.shape
        m2, p = b.shape
        if m != m2:
            raise ValueError("shapes %r and %r not aligned" % (a.shape, b.shape))
        return ndarray._fresh([_sum_terms(av[i * m + k] * bv[k * p + j] for k in range(m)) for i in range(n) for j in range(p)], (n, p))
    raise Unsupported("dot of %d-d and %d-d arrays" % (a.ndim, b.ndim))


matmul = dot
inner = dot


def outer(a, b):
    a, b = asarray(a), asarray(b)
    return ndarray._fresh([x * y for x in a.values() for y in b.values()], (a.size, b.size))


def cross(a, b):
    a, b = asarray(a).values(), asarray(b).values()
    if len(a) != 3 or len(b) != 3:
        raise Unsupported("cross product of non-3-vectors")
    return ndarray._fresh([a[1] * b[2] - a[2] * b[1], a[2] * b[0] - a[0] * b[2], a[0] * b[1] - a[1] * b[0]], (3,))


def trace(a):
    a = asarray(a)
    return _sum_terms(a[i, i] for i in range(_builtins.min(a.shape)))


def sum_(a, axis=None):
    a = asarray(a) if not isinstance(a, ndarray) else a
    if axis is None:
        return _sum_terms(a.values())
    if a.ndim == 2 and axis in (0, 1, -1):
        n, m = a.shape
        v = a.values()
        if axis == 0:
            return ndarray._fresh([_sum_terms(v[i * m + j] for i in range(n)) for j in range(m)], (m,))
        return ndarray._fresh([_sum_terms(v[i * m + j] for j in range(m)) for i in range(n)], (n,))
    if a.ndim == 1 and axis in (0, -1):
        return _sum_terms(a.values())
    raise Unsupported("sum over axis %r of a %d-d array" % (axis, a.ndim))


sum = sum_          # noqa: A001


def concatenate(arrs, axis=0):
    arrs = [asarray(a) if not isinstance(a, ndarray) else a for a in arrs]
    if all(a.ndim == 1 for a in arrs) and axis in (0, -1):
        data = []
        for a in arrs:
            data.extend(a.values())
        return ndarray._fresh(data, (len(data),))
    if all(a.ndim == 2 for a in arrs):
        if axis == 0:
            m = arrs[0].shape[1]
            if any(a.shape[1] != m for a in arrs):
                raise ValueError("all the input array dimensions except for the concatenation axis must match exactly")
            data = []
            for a in arrs:
                data.extend(a.values())
            return ndarray._fresh(data, (len(data) // m if m else 0, m))
        if axis in (1, -1):
            n = arrs[0].shape[0]
            if any(a.shape[0] != n for a in arrs):
                raise ValueError("all the input array dimensions except for the concatenation axis must match exactly")
            data = []
            for i in range(n):
                for a in arrs:
                    data.extend(a[i].values())
            return ndarray._fresh(data, (n, len(data) // n if n else 0))
    raise Unsupported("concatenate of these shapes")


def hstack(arrs):
    arrs = list(arrs)
    return concatenate(arrs, axis=0 if asarray(arrs[0]).ndim == 1 else 1)


def vstack(arrs):
    arrs = [asarray(a) for a in arrs]
    arrs = [a.reshape(1, -1) if a.ndim == 1 else a for a in arrs]
    return concatenate(arrs, axis=0)


def stack(arrs, axis=0):
    arrs = [asarray(a) for a in arrs]
    if axis == 0:
        return array([a for a in arrs])
    raise Unsupported("stack axis != 0")


def reshape(a, shape):
    return asanyarray(a).reshape(shape)


def ravel(a):
    return asanyarray(a).ravel()


def array_equal(a, b):
    a, b = asarray(a), asarray(b)
    if a.shape != b.shape:
        return False
    r = True
    for x, y in zip(a.values(), b.values()):
        r = r and bool(x == y)
    return r


def allclose(a, b, rtol=1e-05, atol=1e-08, equal_nan=False):
    a, b = asarray(a) if not isinstance(a, ndarray) else a, asarray(b) if not isinstance(b, ndarray) else b
    if a.shape != b.shape:
        _, av, bv = _broadcast(a, b)
    else:
        av, bv = a.values(), b.values()
    for x, y in zip(av, bv):
        if not (_abs(x - y) <= atol + rtol * _abs(y)):
            return False
    return True


def isclose(a, b, rtol=1e-05, atol=1e-08, equal_nan=False):
    """|a - b| <= atol + rtol * |b|  (numpy's definition).  Scalars give a symbolic boolean; arrays are not needed as arrays
    by the repository, so an array argument is reduced with all()."""
    if isinstance(a, (ndarray, list, tuple)) or isinstance(b, (ndarray, list, tuple)):
        return allclose(a, b, rtol, atol)
    a, b = _scalar(a), _scalar(b)
    return _abs(a - b) <= atol + rtol * _abs(b)


def diagonal(a, offset=0):
    a = asarray(a)
    if a.ndim != 2:
        raise Unsupported("diagonal of a %d-d array" % a.ndim)
    n, m = a.shape
    return ndarray._fresh([a[i, i + offset] for i in range(n) if 0 <= i + offset < m], (len([i for i in range(n) if 0 <= i + offset < m]),))


def all(a, axis=None):      # noqa: A001
    if isinstance(a, (bool, SymBool)):
        return bool(a)
    if isinstance(a, BoolArray):
        return a.all()
    for x in asarray(a).values():
        if not bool(x != 0):
            return False
    return True


def any(a, axis=None):      # noqa: A001
    if isinstance(a, (bool, SymBool)):
        return bool(a)
    if isinstance(a, BoolArray):
        return a.any()
    for x in asarray(a).values():
        if bool(x != 0):
            return True
    return False


def isscalar(x):
    return isinstance(x, (Sym, int, float, Fraction))


def shape(a):
    return asarray(a).shape


def ndim(a):
    return asarray(a).ndim


class _FInfo:
    eps = Fraction(1, 2 ** 52)
    tiny = Fraction(1, 2 ** 1022)
    max = Fraction(2 ** 1024 - 2 ** 971)
    min = -max


def finfo(t=float):
    return _FInfo


class _Linalg(types.ModuleType):
    @staticmethod
    def norm(x, ord=None, axis=None):
        if ord not in (None, 2, "fro") or axis is not None:
            raise Unsupported("norm with ord/axis")
        if isinstance(x, (list, tuple)):
            x = array(x)
        if isinstance(x, ndarray):
            vals = x.values()
            if ord == 2 and x.ndim == 2:
                raise Unsupported("spectral norm")
        else:
            vals = [_scalar(x)]
        if len(vals) == 1:
            return S.sqrt(vals[0] * vals[0])
        return S.sqrt(_sum_terms(v * v for v in vals))

    @staticmethod
    def inv(a):
        raise Unsupported("np.linalg.inv")

    @staticmethod
    def solve(a, b):
        raise Unsupported("np.linalg.solve")

    @staticmethod
    def det(a):
        a = asarray(a)
        if a.shape == (2, 2):
            return a[0, 0] * a[1, 1] - a[0, 1] * a[1, 0]
        if a.shape == (3, 3):
            return (a[0, 0] * (a[1, 1] * a[2, 2] - a[1, 2] * a[2, 1]) - a[0, 1] * (a[1, 0] * a[2, 2] - a[1, 2] * a[2, 0])
                    + a[0, 2] * (a[1, 0] * a[2, 1] - a[1, 1] * a[2, 0]))
        raise Unsupported("det of shape %r" % (a.shape,))


linalg = _Linalg("numpy.linalg")


class _Random(types.ModuleType):
    def __getattr__(self, name):
        raise Unsupported("numpy.random.%s" % name)


random = _Random("numpy.random")


def seterr(**kw):
    return {}


class errstate:
    def __init__(self, **kw):
        pass

    def __enter__(self):
        return self

    def __exit__(self, *a):
        return False


def set_printoptions(**kw):
    pass


def isfinite(x):
    return _unary(lambda a: True, x)


def shares_memory(a, b, max_work=None):
    """Exact: the two arrays have an element in common."""
    if not isinstance(a, ndarray) or not isinstance(b, ndarray):
        return False
    return a._st is b._st and bool(set(a._ix) & set(b._ix))


def may_share_memory(a, b, max_work=None):
    """numpy's bounds check: same buffer and overlapping [lowest, highest] element ranges (a strided view of one column of
    an array 'may share' with a view of another column)."""
    if not isinstance(a, ndarray) or not isinstance(b, ndarray):
        return False
    if a._st is not b._st or not a._ix or not b._ix:
        return False
    return _builtins.min(a._ix) <= _builtins.max(b._ix) and _builtins.min(b._ix) <= _builtins.max(a._ix)


def isnan(x):
    return _unary(lambda a: False, x)


def clip(x, lo, hi):
    def f(a):
        if a < lo:
            return _scalar(lo)
        if a > hi:
            return _scalar(hi)
        return a
    return _unary(f, x)


def amax(a, axis=None):
    if axis is not None:
        raise Unsupported("np.max with an axis")
    return asarray(a).max()


def amin(a, axis=None):
    if axis is not None:
        raise Unsupported("np.min with an axis")
    return asarray(a).min()


max = amax          # noqa: A001  (numpy exports np.max / np.min)
min = amin          # noqa: A001


def argmax(a, axis=None):
    """Index of the first maximum (first True of a boolean array)."""
    if axis is not None:
        raise Unsupported("np.argmax with an axis")
    if isinstance(a, BoolArray):
        for i, v in enumerate(a.vals):
            if bool(v):
                return i
        return 0
    vals = asarray(a).values()
    best = 0
    for i in range(1, len(vals)):
        if vals[i] > vals[best]:
            best = i
    return best


def argmin(a, axis=None):
    if axis is not None:
        raise Unsupported("np.argmin with an axis")
    if isinstance(a, BoolArray):
        for i, v in enumerate(a.vals):
            if not bool(v):
                return i
        return 0
    vals = asarray(a).values()
    best = 0
    for i in range(1, len(vals)):
        if vals[i] < vals[best]:
            best = i
    return best


def flatnonzero(a):
    if isinstance(a, BoolArray):
        return [i for i, v in enumerate(a.vals) if bool(v)]
    return [i for i, v in enumerate(asarray(a).values()) if bool(v != 0)]


def count_nonzero(a, axis=None):
    return len(flatnonzero(a))


def block(arrays):
    """np.block for a list (one row of blocks) or a list of lists (rows of blocks) of scalars / 1-d / 2-d arrays."""
    def as2d(x):
        x = x if isinstance(x, ndarray) else array(x)
        if x.ndim == 0:
            return x.reshape(1, 1)
        if x.ndim == 1:
            return x.reshape(1, x.shape[0])
        if x.ndim == 2:
            return x
        raise Unsupported("np.block of an array with more than two dimensions")
    if not isinstance(arrays, list):
        raise Unsupported("np.block of a non-list")
    if arrays and all(not isinstance(x, list) for x in arrays):
        if all((isinstance(x, ndarray) and x.ndim <= 1) or not isinstance(x, ndarray) for x in arrays):
            return concatenate([x if isinstance(x, ndarray) and x.ndim == 1 else array([x]) for x in arrays])
        return concatenate([as2d(x) for x in arrays], axis=1)
    if arrays and all(isinstance(row, list) for row in arrays):
        rows = [concatenate([as2d(x) for x in row], axis=1) for row in arrays]
        return concatenate(rows, axis=0)
    raise Unsupported("np.block with mixed nesting")


def logical_not(x):
    if isinstance(x, BoolArray):
        return ~x
    if isinstance(x, SymBool):
        return ~x
    return not x


def maximum(a, b):
    return _binary_fn(lambda x, y: x if x >= y else y)(a, b)


def minimum(a, b):
    return _binary_fn(lambda x, y: x if x <= y else y)(a, b)


def sign(x):
    return _unary(lambda a: Sym(1) if a > 0 else (Sym(-1) if a < 0 else Sym(0)), x)


def where(c, a, b):
    if isinstance(c, (bool, SymBool)):
        return a if c else b
    if isinstance(c, BoolArray) and isinstance(a, ndarray) and isinstance(b, ndarray) and a.shape == b.shape == c.shape:
        return ndarray._fresh([x if bool(t) else y for t, x, y in zip(c.vals, a.values(), b.values())], a.shape)
    raise Unsupported("np.where on arrays")
