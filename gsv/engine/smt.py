"""SMT back ends: z3 (python API) for path feasibility and inequality VCs; z3 + cvc5 as independent
re-checkers of polynomial-identity certificates (SMT-LIB text).

Only imported by the proving interpreter (python3-vt).
"""
import os
import subprocess
import tempfile
import time
from fractions import Fraction

import z3

from . import poly as P
from . import sym as S

STATS = {"z3_calls": 0, "z3_time": 0.0, "cvc5_calls": 0, "cvc5_time": 0.0, "z3cli_calls": 0, "z3cli_time": 0.0}


class Translator:
    def __init__(self, state):
        self.st = state
        self.vars = {}

    def var(self, v):
        z = self.vars.get(v)
        if z is None:
            name = self.st.pc.names[v]
            if self.st.pc.kinds[v] == "int":
                z = z3.ToReal(z3.Int(name))
            else:
                z = z3.Real(name)
            self.vars[v] = z
        return z

    def poly(self, p):
        terms = []
        for m, c in p.t.items():
            c = Fraction(c)
            t = z3.RealVal(str(c)) if c.denominator == 1 else z3.Q(c.numerator, c.denominator)
            for v, e in m:
                zv = self.var(v)
                for _ in range(e):
                    t = t * zv
            terms.append(t)
        if not terms:
            return z3.RealVal(0)
        return z3.Sum(terms) if len(terms) > 1 else terms[0]

    def sym(self, s):
        n = self.poly(s.n)
        if s.d is None:
            return n
        return n / self.poly(s.d)

    def formula(self, f):
        op = f[0]
        if op == "true":
            return z3.BoolVal(True)
        if op == "false":
            return z3.BoolVal(False)
        if op == "lt":
            return self.sym(f[1]) < 0
        if op == "le":
            return self.sym(f[1]) <= 0
        if op == "eq":
            return self.sym(f[1]) == 0
        if op == "not":
            return z3.Not(self.formula(f[1]))
        if op == "and":
            return z3.And([self.formula(g) for g in f[1:]])
        if op == "or":
            return z3.Or([self.formula(g) for g in f[1:]])
        if op == "implies":
            return z3.Implies(self.formula(f[1]), self.formula(f[2]))
        raise ValueError("unknown formula %r" % (op,))


def strip_inf(state, f):
    """Evaluate a formula at the base point of the jet (all infinitesimals = 0)."""
    inf = state.pc.inf
    if not inf:
        return f
    op = f[0]
    if op in ("lt", "le", "eq"):
        s = f[1]
        n0 = s.n.drop_vars(inf)
        d0 = None if s.d is None else s.d.drop_vars(inf)
        if d0 is not None and d0.is_zero():
            raise S.Unsupported("denominator vanishes at the base point of a jet")
        base = S.Sym(n0, d0)
        if len(n0) != len(s.n) and (P.nf(n0) if state.pc.rules else n0).is_zero():
            raise S.Unsupported("comparison is an equality at the base point of a jet (direction-dependent)")
        return (op, base)
    if op in ("true", "false"):
        return f
    return (op,) + tuple(strip_inf(state, g) for g in f[1:])


def _is_definition(state, h):
    """Hypotheses that define an atom by a polynomial equation (r^2 = u, c^2+s^2 = 1, solver equations ...)."""
    return h[0] == "eq" and h[1].n.degree() >= 2


def context_formulas(state, tr, extra=(), light=False):
    """light: leave out the polynomial definitions of atoms (rules and degree >= 2 equations).  Proving a goal from
    fewer hypotheses is sound; it keeps the query (near-)linear when the goal only needs the atoms' signs."""
    if light:
        fs = [tr.formula(strip_inf(state, h)) for h in state.hyps if not _is_definition(state, h)]
    else:
        fs = [tr.formula(strip_inf(state, h)) for h in state.hyps]
        for v, rep in state.pc.rules.items():
            if state.pc.kinds[v] == "inf":
                continue
            zv = tr.var(v)
            fs.append(zv * zv == tr.poly(rep))
    fs.extend(tr.formula(strip_inf(state, g)) for g in state.path)
    fs.extend(tr.formula(strip_inf(state, g)) for g in extra)
    return fs


def check_sat(state, extra, timeout_ms=2000, light=False):
    """sat / unsat / unknown for  hyps & rules & path & extra."""
    tr = Translator(state)
    s = z3.Solver()
    s.set("timeout", timeout_ms)
    for f in context_formulas(state, tr, extra, light):
        s.add(f)
    t = time.time()
    r = s.check()
    STATS["z3_calls"] += 1
    STATS["z3_time"] += time.time() - t
    if r == z3.sat:
        return "sat", s.model()
    if r == z3.unsat:
        return "unsat", None
    return "unknown", None


def _sign_atom(state, f):
    """(canonical polynomial key, set of allowed signs) for a sign condition on ONE polynomial, else None: an atom, or a boolean
    combination of atoms about the same polynomial (`(p < 0) | (p > 0)` is `p != 0`, its negation pins p to zero).
    The polynomial is normalised so that p and -p (and positive multiples) share one key."""
    if f[0] in ("and", "or") and len(f) >= 3:
        parts = [_sign_atom(state, g) for g in f[1:]]
        if any(a is None for a in parts) or len({a[0] for a in parts}) != 1:
            return None
        allowed = set(parts[0][1])
        for a in parts[1:]:
            allowed = (allowed & a[1]) if f[0] == "and" else (allowed | a[1])
        return parts[0][0], allowed
    if f[0] == "not" and f[1][0] in ("and", "or", "not"):
        inner = _sign_atom(state, f[1])
        if inner is None:
            return None
        return inner[0], {-1, 0, 1} - inner[1]
    neg = False
    while f[0] == "not":
        neg = not neg
        f = f[1]
    if f[0] not in ("lt", "le", "eq") or f[1].d is not None:
        return None
    n = f[1].n
    if state.pc.rules:
        n = P.nf(n)
    if n.is_const():
        return None
    lead_m = min(n.t)
    lc = Fraction(n.t[lead_m])
    flip = lc < 0
    key = frozenset((m, Fraction(c) / lc) for m, c in n.t.items())
    allowed = {"lt": {-1}, "le": {-1, 0}, "eq": {0}}[f[0]]
    if neg:
        allowed = {-1, 0, 1} - allowed
    if flip:
        allowed = {-x for x in allowed}
    return key, allowed


def _sign_facts(state):
    facts = {}
    for g in list(state.path) + [h for h in state.hyps if h[0] in ("lt", "le", "eq", "not", "and", "or")]:
        a = _sign_atom(state, strip_inf(state, g))
        if a is not None:
            facts[a[0]] = facts.get(a[0], {-1, 0, 1}) & a[1]
    return facts


def _formula_size(f):
    op = f[0]
    if op in ("lt", "le", "eq"):
        return len(f[1].n) + (len(f[1].d) if f[1].d is not None else 0)
    if op in ("true", "false"):
        return 0
    return sum(_formula_size(g) for g in f[1:])


def _zero_set_contradictory(state, new_key):
    """The polynomials pinned to zero on this path (plus the new one) generate 1 by a combination
    1 = sum c_i p_i + sum c_ij p_i p_j  (c rational, verified symbolically modulo the rewrite rules):
    e.g. all four components of a product of unit quaternions vanish."""
    from gsv.symkernel import linear_membership
    keys = [k_ for k_, allowed in _sign_facts(state).items() if allowed == {0}]
    if new_key not in keys:
        keys.append(new_key)
    if len(keys) < 2 or len(keys) > 8:
        return False
    polys = [P.Poly({m: P._c(c) for m, c in key}) for key in keys]
    gens = list(polys) + [polys[i] * polys[j] for i in range(len(polys)) for j in range(i, len(polys))]
    return linear_membership(state, P.Poly.const(1), gens)


def decider(state, formula, timeout_ms=2000):
    """Feasible truth values of formula under the current hypotheses and path condition."""
    formula = strip_inf(state, formula)
    triv = S.trivial_truth(formula)
    if triv is not None:
        return [triv]
    # sign bookkeeping for opaque polynomials: decides p<0 vs -p<0, p>=0 & p<=0 & p!=0, ... without the solver
    atom = _sign_atom(state, formula)
    pruned = set()
    if atom is not None:
        known = _sign_facts(state).get(atom[0], {-1, 0, 1})
        if not (known & atom[1]):
            pruned.add(True)
        if not (known & ({-1, 0, 1} - atom[1])):
            pruned.add(False)
    if atom is not None:
        for val in (True, False):
            if val in pruned:
                continue
            allowed = known & (atom[1] if val else ({-1, 0, 1} - atom[1]))
            if allowed == {0} and _zero_set_contradictory(state, atom[0]):
                pruned.add(val)
    if _formula_size(formula) > 4000:
        # a comparison between very large polynomials: asking the solver costs more than exploring both branches (which is sound)
        return [v for v in (True, False) if v not in pruned]
    feas = []
    for val in (True, False):
        if val in pruned:
            continue
        f = [formula if val else ("not", formula)]
        r, _ = check_sat(state, f, timeout_ms, light=True)
        if r != "unsat" and _has_definitions(state) and not getattr(state, "light_only", False):
            r, _ = check_sat(state, f, min(timeout_ms, 1000), light=False)
        if r != "unsat":
            feas.append(val)
    return feas


def _has_definitions(state):
    return bool(state.pc.rules) or any(_is_definition(state, h) for h in state.hyps)


def prove(state, goal, timeout_ms=20000, use_cvc5=True):
    """Validity of  hyps & rules & path ==> goal.  Returns (verdict, model_or_None, backend).

    verdict: "proved" | "refuted" | "unknown".
    """
    goal = strip_inf(state, goal)
    triv = S.trivial_truth(goal)
    if triv is True:
        return "proved", None, "syntactic"
    if _has_definitions(state):
        r, model = check_sat(state, [("not", goal)], min(timeout_ms, 5000), light=True)
        if r == "unsat":
            return "proved", None, "z3"
    r, model = check_sat(state, [("not", goal)], timeout_ms)
    if r == "unsat":
        return "proved", None, "z3"
    if r == "sat":
        return "refuted", model_to_dict(state, model), "z3"
    if homogeneous_angle_query(state, goal):
        r3 = check_sat_homogeneous(state, goal, timeout_ms)
        if r3 == "unsat":
            return "proved", None, "z3-angle-units"
    if use_cvc5:
        r2 = cvc5_check(state, [("not", goal)], timeout_s=max(5, timeout_ms // 1000))
        if r2 == "unsat":
            return "proved", None, "cvc5"
    return "unknown", None, "z3"


# --------------------------------------------------------------------------- angle queries in units of one turn
#
# Wrapped angles are  x - 2*PI*k  with integer ghosts k, so range / congruence goals contain the products PI*k, which makes
# them non-linear for the solvers.  A formula whose atoms are all HOMOGENEOUS of degree one in the real (non-integer)
# variables -- every monomial has exactly one real factor, to the first power, times integer variables -- is invariant under
# scaling all real variables by a common positive factor.  Since PI > 0 we may therefore fix PI := 1/2 (angles measured in
# turns); the query becomes linear mixed integer/real arithmetic, which z3 decides.  Hypotheses that are not homogeneous
# (3 < PI < 4, polynomial definitions of atoms) are dropped, which is sound.

def _homogeneous_atom(state, s):
    if s.d is not None:
        return False
    kinds = state.pc.kinds
    for m in s.n.t:
        real = [(v, e) for v, e in m if kinds[v] != "int"]
        if len(real) != 1 or real[0][1] != 1:
            return False
        if any(e != 1 for v, e in m if kinds[v] == "int") or sum(1 for v, e in m if kinds[v] == "int") > 1:
            return False
    return True


def _homogeneous_formula(state, f):
    op = f[0]
    if op in ("true", "false"):
        return True
    if op in ("lt", "le", "eq"):
        return _homogeneous_atom(state, f[1])
    return all(_homogeneous_formula(state, g) for g in f[1:])


def homogeneous_angle_query(state, goal):
    goal = strip_inf(state, goal)
    return _homogeneous_formula(state, goal)


def check_sat_homogeneous(state, goal, timeout_ms):
    goal = strip_inf(state, goal)
    fs = [strip_inf(state, h) for h in list(state.hyps) + list(state.path)]
    fs = [f for f in fs if _homogeneous_formula(state, f)]
    half = S.Sym(P.Poly.const(Fraction(1, 2)))

    def sub(f):
        op = f[0]
        if op in ("true", "false"):
            return f
        if op in ("lt", "le", "eq"):
            return (op, S.Sym(f[1].n.subs({0: half.n})))
        return (op,) + tuple(sub(g) for g in f[1:])
    tr = Translator(state)
    s = z3.Solver()
    s.set("timeout", timeout_ms)
    for f in fs:
        s.add(tr.formula(sub(f)))
    s.add(z3.Not(tr.formula(sub(goal))))
    t = time.time()
    r = s.check()
    STATS["z3_calls"] += 1
    STATS["z3_time"] += time.time() - t
    return str(r)


def model_to_dict(state, model):
    out = {}
    for d in model.decls():
        val = model[d]
        try:
            if z3.is_int_value(val):
                out[d.name()] = val.as_long()
            elif z3.is_rational_value(val):
                out[d.name()] = float(Fraction(val.numerator_as_long(), val.denominator_as_long()))
            else:
                out[d.name()] = float(val.approx(20).as_fraction())
        except Exception:
            out[d.name()] = str(val)
    return out


# --------------------------------------------------------------------------- SMT-LIB export (cvc5 / z3 CLI)

def _smt_name(state, v):
    return "|" + state.pc.names[v].replace("|", "_") + "|"


def _smt_num(c):
    c = Fraction(c)
    if c < 0:
        return "(- %s)" % _smt_num(-c)
    if c.denominator == 1:
        return "%d.0" % c.numerator
    return "(/ %d.0 %d.0)" % (c.numerator, c.denominator)


def smt_poly(state, p):
    if not p.t:
        return "0.0"
    terms = []
    for m, c in p.t.items():
        fs = [_smt_num(c)]
        for v, e in m:
            nm = _smt_name(state, v)
            if state.pc.kinds[v] == "int":
                nm = "(to_real %s)" % nm
            fs.extend([nm] * e)
        terms.append(fs[0] if len(fs) == 1 else "(* %s)" % " ".join(fs))
    return terms[0] if len(terms) == 1 else "(+ %s)" % " ".join(terms)


def smt_sym(state, s):
    if s.d is None:
        return smt_poly(state, s.n)
    return "(/ %s %s)" % (smt_poly(state, s.n), smt_poly(state, s.d))


def smt_formula(state, f):
    op = f[0]
    if op == "true":
        return "true"
    if op == "false":
        return "false"
    if op == "lt":
        return "(< %s 0.0)" % smt_sym(state, f[1])
    if op == "le":
        return "(<= %s 0.0)" % smt_sym(state, f[1])
    if op == "eq":
        return "(= %s 0.0)" % smt_sym(state, f[1])
    if op == "not":
        return "(not %s)" % smt_formula(state, f[1])
    if op in ("and", "or"):
        return "(%s %s)" % (op, " ".join(smt_formula(state, g) for g in f[1:]))
    if op == "implies":
        return "(=> %s %s)" % (smt_formula(state, f[1]), smt_formula(state, f[2]))
    raise ValueError(op)


def _collect_vars(f, acc):
    op = f[0]
    if op in ("lt", "le", "eq"):
        acc |= f[1].n.vars()
        if f[1].d is not None:
            acc |= f[1].d.vars()
    elif op not in ("true", "false"):
        for g in f[1:]:
            _collect_vars(g, acc)


def smtlib_script(state, formulas, logic="QF_NIRA", polys_ne=()):
    """SMT-LIB text asserting all formulas (and p != 0 for each p in polys_ne combined by or)."""
    vs = set()
    for f in formulas:
        _collect_vars(f, vs)
    for p in polys_ne:
        vs |= p.vars()
    lines = ["(set-logic %s)" % logic]
    for v in sorted(vs):
        lines.append("(declare-const %s %s)" % (_smt_name(state, v), "Int" if state.pc.kinds[v] == "int" else "Real"))
    for f in formulas:
        lines.append("(assert %s)" % smt_formula(state, f))
    if polys_ne:
        lines.append("(assert (or %s))" % " ".join("(not (= %s 0.0))" % smt_poly(state, p) for p in polys_ne))
    lines.append("(check-sat)")
    return "\n".join(lines) + "\n"


def run_cli(cmd, script, timeout_s):
    fd, path = tempfile.mkstemp(suffix=".smt2", prefix="gsv-")
    try:
        with os.fdopen(fd, "w") as f:
            f.write(script)
        t = time.time()
        try:
            out = subprocess.run(cmd + [path], capture_output=True, text=True, timeout=timeout_s + 5).stdout.strip()
        except subprocess.TimeoutExpired:
            out = "timeout"
        return out.splitlines()[0] if out else "error", time.time() - t
    finally:
        try:
            os.unlink(path)
        except OSError:
            pass


def cvc5_check(state, extra, timeout_s=30):
    hyps = [strip_inf(state, h) for h in state.hyps]
    rules = []
    for v, rep in state.pc.rules.items():
        if state.pc.kinds[v] == "inf":
            continue
        x = S.Sym(P.Poly.var(v, 2) - rep)
        rules.append(("eq", x))
    fs = hyps + rules + [strip_inf(state, g) for g in state.path] + [strip_inf(state, g) for g in extra]
    script = smtlib_script(state, fs)
    out, dt = run_cli(["/usr/bin/cvc5", "--tlimit=%d" % (timeout_s * 1000)], script, timeout_s)
    STATS["cvc5_calls"] += 1
    STATS["cvc5_time"] += dt
    return out


def check_identities(state, polys, backends=("z3", "cvc5"), timeout_s=60):
    """Each polynomial in polys is claimed to be identically zero in the free ring.

    Ask the solvers for a point where one of them is non-zero; "unsat" confirms the claim.
    Returns dict backend -> (answer, seconds).
    """
    res = {}
    polys = [p for p in polys]
    if "z3" in backends:
        tr = Translator(state)
        s = z3.Solver()
        s.set("timeout", timeout_s * 1000)
        s.add(z3.Or([tr.poly(p) != 0 for p in polys]) if polys else z3.BoolVal(False))
        t = time.time()
        r = s.check()
        dt = time.time() - t
        STATS["z3_calls"] += 1
        STATS["z3_time"] += dt
        res["z3"] = (str(r), round(dt, 3))
    if "cvc5" in backends or "z3cli" in backends:
        script = smtlib_script(state, [], logic="QF_NRA", polys_ne=polys) if polys else "(set-logic QF_NRA)\n(assert false)\n(check-sat)\n"
        if "cvc5" in backends:
            out, dt = run_cli(["/usr/bin/cvc5", "--tlimit=%d" % (timeout_s * 1000)], script, timeout_s)
            STATS["cvc5_calls"] += 1
            STATS["cvc5_time"] += dt
            res["cvc5"] = (out, round(dt, 3))
        if "z3cli" in backends:
            out, dt = run_cli(["/usr/bin/z3", "-T:%d" % timeout_s], script, timeout_s)
            STATS["z3cli_calls"] += 1
            STATS["z3cli_time"] += dt
            res["z3cli"] = (out, round(dt, 3))
    return res


# --------------------------------------------------------------------------- certificates

def check_certificates(state, certs, backends=("z3",), timeout_s=60):
    """certs: list of (label, index, num, cof) with the claim  num == sum_v cof[v] * (v^2 - rules[v]).

    The claim is an identity of polynomials in the free ring; it is stated to the solvers *unexpanded*
    (products of cofactors and generators), so they re-do the algebra of the normal-form engine.
    Returns dict backend -> (answer, seconds); answer "unsat" confirms all certificates.
    """
    rules = state.pc.rules
    res = {}
    if not certs:
        return {b: ("unsat", 0.0) for b in backends}
    if "z3" in backends:
        tr = Translator(state)
        s = z3.Solver()
        s.set("timeout", timeout_s * 1000)
        disj = []
        for _, _, num, cof in certs:
            e = tr.poly(num)
            for v, h in cof.items():
                zv = tr.var(v)
                e = e - tr.poly(h) * (zv * zv - tr.poly(rules[v]))
            disj.append(e != 0)
        s.add(z3.Or(disj))
        t = time.time()
        r = s.check()
        dt = time.time() - t
        STATS["z3_calls"] += 1
        STATS["z3_time"] += dt
        res["z3"] = (str(r), round(dt, 3))
    if "cvc5" in backends or "z3cli" in backends:
        vs = set()
        parts = []
        for _, _, num, cof in certs:
            vs |= num.vars()
            e = smt_poly(state, num)
            subs = []
            for v, h in cof.items():
                vs |= h.vars() | rules[v].vars() | {v}
                nm = _smt_name(state, v)
                subs.append("(* %s (- (* %s %s) %s))" % (smt_poly(state, h), nm, nm, smt_poly(state, rules[v])))
            if subs:
                e = "(- %s (+ %s 0.0))" % (e, " ".join(subs))
            parts.append("(not (= %s 0.0))" % e)
        lines = ["(set-logic QF_NRA)"]
        for v in sorted(vs):
            lines.append("(declare-const %s Real)" % _smt_name(state, v))
        lines.append("(assert (or %s false))" % " ".join(parts))
        lines.append("(check-sat)")
        script = "\n".join(lines) + "\n"
        if "cvc5" in backends:
            out, dt = run_cli(["/usr/bin/cvc5", "--tlimit=%d" % (timeout_s * 1000)], script, timeout_s)
            STATS["cvc5_calls"] += 1
            STATS["cvc5_time"] += dt
            res["cvc5"] = (out, round(dt, 3))
        if "z3cli" in backends:
            out, dt = run_cli(["/usr/bin/z3", "-T:%d" % timeout_s], script, timeout_s)
            STATS["z3cli_calls"] += 1
            STATS["z3cli_time"] += dt
            res["z3cli"] = (out, round(dt, 3))
        res["_sample_script_head"] = script[:400]
    return res


def range_oracle(state, x, m):
    """Do the hypotheses and the path condition imply 0 <= x < m?  (angle-unit reading; used to keep x % m == x)"""
    goal = ("and", ("le", -x), ("lt", x - m))
    if not homogeneous_angle_query(state, goal):
        return False
    try:
        return check_sat_homogeneous(state, goal, 1000) == "unsat"
    except Exception:      # noqa: BLE001
        return False
