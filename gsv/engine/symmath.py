"""What graphslam.pose.se2 sees as ``math`` (only atan2 is used by the repository)."""
import math as _math

from . import sym as S
from .sym import Sym

pi = Sym(S.Poly.var(0))
e = _math.e
inf = _math.inf


def atan2(y, x):
    if isinstance(y, Sym) or isinstance(x, Sym):
        return S.atan2(y, x)
    return _math.atan2(y, x)


def sqrt(x):
    return S.sqrt(x) if isinstance(x, Sym) else _math.sqrt(x)


def cos(x):
    return S.cos(x) if isinstance(x, Sym) else _math.cos(x)


def sin(x):
    return S.sin(x) if isinstance(x, Sym) else _math.sin(x)


def fabs(x):
    return abs(x)


def __getattr__(name):
    raise S.Unsupported("math.%s is not modelled by the symbolic shim" % name)
