"""What graphslam.pose.se2 sees as ``math`` (only atan2 is used by the repository)."""
import math as _math

from . import sym as S
from .sym import Sym

pi = Sym(S.Poly.var(0))
e = _math.e
inf = _math.inf


def atan2(y, x):
    if isinstance(y, Sym) or isinstance(x, Sym):
        return S.atan2(y, x)
    return _math.atan2(y, x)


def sqrt(x):
    return S.sqrt(x) if isinstance(x, Sym) else _math.sqrt(x)


def cos(x):
    return S.cos(x) if isinstance(x, Sym) else _math.cos(x)


def sin(x):
    return S.sin(x) if isinstance(x, Sym) else _math.sin(x)


def fabs(x):
    return abs(x)


def copysign(x, y):
    if isinstance(x, Sym) or isinstance(y, Sym):
        mag = abs(x)
        # the sign of y decides; y == 0.0 counts as positive (a real zero has no sign: the -0.0 case is invisible to the proof)
        return mag if y >= 0 else -mag
    return _math.copysign(x, y)


def hypot(*xs):
    if any(isinstance(x, Sym) for x in xs):
        tot = 0
        for x in xs:
            tot = tot + x * x
        return S.sqrt(tot)
    return _math.hypot(*xs)


def isclose(a, b, rel_tol=1e-09, abs_tol=0.0):
    if isinstance(a, Sym) or isinstance(b, Sym):
        d = abs(a - b)
        return bool((d <= rel_tol * abs(a)) | (d <= rel_tol * abs(b)) | (d <= abs_tol))
    return _math.isclose(a, b, rel_tol=rel_tol, abs_tol=abs_tol)


def isnan(x):
    return False if isinstance(x, Sym) else _math.isnan(x)


def isinf(x):
    return False if isinstance(x, Sym) else _math.isinf(x)


def isfinite(x):
    return True if isinstance(x, Sym) else _math.isfinite(x)


def acos(x):
    if isinstance(x, Sym):
        raise S.Unsupported("math.acos of a symbolic value")
    return _math.acos(x)


def asin(x):
    if isinstance(x, Sym):
        raise S.Unsupported("math.asin of a symbolic value")
    return _math.asin(x)


def floor(x):
    if isinstance(x, Sym):
        raise S.Unsupported("math.floor of a symbolic value")
    return _math.floor(x)


def ceil(x):
    if isinstance(x, Sym):
        raise S.Unsupported("math.ceil of a symbolic value")
    return _math.ceil(x)


tau = 2 * pi


def __getattr__(name):
    raise S.Unsupported("math.%s is not modelled by the symbolic shim" % name)
