"""Opaque number tokens for the .g2o obligations (C13, C14).

Formatting a symbolic number yields a unique whitespace-free token; ``float(token)`` (the builtin is
shadowed in the globals of the repository's parser modules) returns

  * the *same* symbol, if the format is one that round-trips a double (str/repr/'{}'/'{!r}' and
    e/g formats with >= 17 significant digits) -- the assumed contract of CPython/numpy float
    formatting (shortest round-trip repr);
  * a *fresh* symbol otherwise ('.6f', '.9g', ...), so a writer that silently loses digits fails the
    identity obligation.

Constants are formatted as the python floats they are.
"""
import builtins
import re
from fractions import Fraction

from . import sym as S
from .poly import Poly

_real_float = builtins.float
_real_int = builtins.int
TOKEN_RE = re.compile(r"^@[SL]\d+@$")


def _roundtrips(spec):
    if spec in ("", "r", "s"):
        return True
    m = re.fullmatch(r"(?:.?[<>=^])?[-+ ]?#?0?\d*,?(?:\.(\d+))?([eEgG])", spec)
    if m and m.group(1) is not None:
        digits = _real_int(m.group(1))
        kind = m.group(2)
        return digits >= (17 if kind in "gG" else 16)
    return False


def format_sym(s, spec):
    st = S.state()
    if s.is_const():
        return format(_real_float(Fraction(s.const_value())), spec)
    if st is None:
        return "<sym>"
    key = (s.key(), _roundtrips(spec), spec if not _roundtrips(spec) else "")
    tok = st.token_of.get(key)
    if tok is None:
        if _roundtrips(spec):
            tok = "@S%d@" % (len(st.tokens) + 1)
            st.tokens[tok] = s
        else:
            tok = "@L%d@" % (len(st.tokens) + 1)
            v = st.fresh("lossy", "real")
            st.tokens[tok] = S.Sym(Poly.var(v))
            st.notes.append(("lossy-format", spec))
        st.token_of[key] = tok
    return tok


def sym_float(x=0.0):
    if isinstance(x, str):
        t = x.strip()
        st = S.state()
        if st is not None and t in st.tokens:
            return st.tokens[t]
        if TOKEN_RE.match(t):
            raise ValueError("could not convert string to float: %r" % (x,))
    if isinstance(x, S.Sym):
        return x
    return _real_float(x)


def sym_int(x=0, *a):
    if isinstance(x, S.Sym):
        return x.__int__()
    return _real_int(x, *a)


def sym_repr(x):
    if isinstance(x, S.Sym) and not x.is_const() and S.state() is not None:
        return format_sym(x, "r")
    return builtins.repr(x)


def install(modules):
    """Shadow float/int/repr in the globals of the given (repository) modules."""
    for m in modules:
        m.float = sym_float
        m.int = sym_int
        m.repr = sym_repr
