"""The specification kernel: one obligation text, three interpretations.

An obligation is a python function ``fn(k)`` that builds inputs through the kernel ``k``, calls the
*real* repository code (``k.r`` holds the loaded modules) and states goals (``k.eq``, ``k.holds``,
``k.raises`` ...).  It is interpreted

  * symbolically (SymKernel, proving interpreter): inputs are universally quantified reals, the
    repository runs on the algebraic numpy shim, goals become verification conditions;
  * numerically (NumKernel, replay interpreter with the repository's real numpy/scipy): inputs
    come from a witness point or a seeded sampler, goals are evaluated in floating point.  This is
    the replay of counterexamples, the bounded stand-in, and one half of the shim-fidelity check.

This module must import under both interpreters: no z3, no numpy at module level.
"""
import math
import random


class Reject(Exception):
    """Sampled point violates a precondition (numeric mode): draw again."""


class GoalFailed(Exception):
    pass


POSE_N = {"R2": 2, "R3": 3, "SE2": 3, "SE3": 7}
POSE_C = {"R2": 2, "R3": 3, "SE2": 3, "SE3": 6}
POINT_OF = {"R2": "R2", "R3": "R3", "SE2": "R2", "SE3": "R3"}


class BaseKernel:
    mode = None

    def __init__(self, repo):
        self.r = repo
        self.np = repo.np
        self.goals = []        # dicts
        self.info = {}

    # ---- conveniences shared by both kernels
    def reals(self, name, n):
        return [self.real("%s%d" % (name, i)) for i in range(n)]

    def vec(self, name, n):
        return self.np.array(self.reals(name, n))

    def matrix(self, name, n, m):
        return self.np.array([[self.real("%s_%d_%d" % (name, i, j)) for j in range(m)] for i in range(n)])

    def sym_matrix(self, name, n):
        rows = [[None] * n for _ in range(n)]
        for i in range(n):
            for j in range(i, n):
                rows[i][j] = rows[j][i] = self.real("%s_%d_%d" % (name, i, j))
        return self.np.array(rows)

    def spd_matrix(self, name, n):
        """A symmetric positive definite matrix (information matrix).  Symbolically: a symmetric matrix of free
        symbols (proving for all symmetric matrices is the stronger statement); numerically: L L^T + small I."""
        return self.sym_matrix(name, n)

    def pose(self, T, name, unit=True):
        """A pose of type T built through the real constructor from symbolic components."""
        r = self.r
        if T == "R2":
            return r.PoseR2(self.reals(name + ".t", 2))
        if T == "R3":
            return r.PoseR3(self.reals(name + ".t", 3))
        if T == "SE2":
            return r.PoseSE2(self.reals(name + ".t", 2), self.angle(name + ".th"))
        if T == "SE3":
            q = self.unit_quat(name + ".q") if unit else self.reals(name + ".q", 4)
            return r.PoseSE3(self.reals(name + ".t", 3), q)
        raise KeyError(T)

    def pose_cls(self, T):
        return {"R2": self.r.PoseR2, "R3": self.r.PoseR3, "SE2": self.r.PoseSE2, "SE3": self.r.PoseSE3}[T]

    def pose_from_raw(self, T, raw):
        """Pose of type T from a flat list of its to_array() components (no constraint implied)."""
        r = self.r
        if T == "R2":
            return r.PoseR2([raw[0], raw[1]])
        if T == "R3":
            return r.PoseR3([raw[0], raw[1], raw[2]])
        if T == "SE2":
            return r.PoseSE2([raw[0], raw[1]], raw[2])
        return r.PoseSE3([raw[0], raw[1], raw[2]], [raw[3], raw[4], raw[5], raw[6]])

    def flat(self, x):
        """Flatten scalars / arrays / nested lists to (shape, list of scalars)."""
        np = self.np
        if isinstance(x, np.ndarray):
            if self.mode == "sym":
                return tuple(x.shape), x.values()
            return tuple(x.shape), [v for v in x.reshape(-1).tolist()]
        if isinstance(x, (list, tuple)):
            parts = [self.flat(e) for e in x]
            shapes = {p[0] for p in parts}
            vals = [v for p in parts for v in p[1]]
            if len(shapes) == 1:
                return (len(x),) + next(iter(shapes)), vals
            return ("ragged", tuple(p[0] for p in parts)), vals
        return (), [x]

    def dense(self, A):
        """A dense copy of a (possibly scipy-sparse) matrix."""
        if hasattr(A, "toarray"):
            return self.np.array(A.toarray())
        return self.np.array(A)

    def check(self, cond, label, detail=None):
        """A structural (concrete python) condition."""
        g = {"label": label, "kind": "struct", "ok": bool(cond)}
        if detail is not None and not cond:
            g["detail"] = str(detail)[:600]
        self.goals.append(g)

    def note(self, key, value):
        self.info[key] = value

    def returns(self, thunk, label):
        """thunk() must return normally; its value is handed back (None when it raised)."""
        from gsv.engine_common import is_control_exception
        try:
            v = thunk()
        except Exception as e:        # noqa: BLE001 -- the outcome *is* the observation
            if is_control_exception(e):
                raise
            self.goals.append({"label": label, "kind": "returns", "ok": False, "detail": "raised %s: %s" % (type(e).__name__, e)})
            return None
        self.goals.append({"label": label, "kind": "returns", "ok": True})
        return v

    def raises(self, thunk, label, exc=Exception):
        from gsv.engine_common import is_control_exception
        try:
            thunk()
        except exc as e:              # noqa: BLE001
            if is_control_exception(e):
                raise
            self.goals.append({"label": label, "kind": "raises", "ok": True, "detail": type(e).__name__})
            return True
        self.goals.append({"label": label, "kind": "raises", "ok": False, "detail": "did not raise"})
        return False


# =========================================================================== numeric kernel

class NumKernel(BaseKernel):
    """Floating point interpretation on the real numpy."""
    mode = "num"

    def __init__(self, repo, point=None, seed=0, rtol=1e-9, atol=1e-10, typed=None):
        super().__init__(repo)
        # typed == "int": every number handed to the code is a Python int (arrays of them are integer arrays).  The properties
        # quantify over numbers, not over their machine representation: 2 and 2.0 are the same input.
        self.typed = typed
        self._groups = {}
        self._group_seed = seed
        self.point = dict(point) if point else {}
        self.given = point is not None
        self.rng = random.Random(seed)
        self.rtol = rtol
        self.atol = atol
        self.draws = {}
        self.flavour = self.rng.random()

    # ---- inputs
    def _get(self, name, sampler):
        if name in self.draws:
            return self.draws[name]
        if name in self.point:
            v = self.point[name]
        elif self.given and self.point:
            # a solver model that does not mention the symbol: model completion (any value works for the solver; take 0)
            v = 0.0
        else:
            v = sampler()
        if self._int_typed(name) and not isinstance(v, int):
            v = int(round(v))
        self.draws[name] = v
        return v

    def _int_typed(self, name):
        """typed == "int": per GROUP of names (one vector / matrix / translation / quaternion = one group) either every member is a
        Python int, or the group is drawn as ordinary floats -- so that integer arrays meet float arrays."""
        if self.typed != "int":
            return False
        if name.startswith(("chi2_", "e_", "J_", "g_", "h_", "dx", "tol")):
            return False        # values standing for RESULTS of cut code (edge contributions, solver output): floats, as the code produces them
        import re
        key = re.sub(r"[\d_]+$", "", re.sub(r"(\.q)[xyzw]$", r"\1", name))
        if key not in self._groups:
            if self.given:
                grp = [v for n, v in self.point.items() if re.sub(r"[\d_]+$", "", re.sub(r"(\.q)[xyzw]$", r"\1", n)) == key]
                self._groups[key] = bool(grp) and all(isinstance(v, int) and not isinstance(v, bool) for v in grp)
            else:
                self._groups[key] = random.Random("%s|%s" % (key, self._group_seed)).random() < 0.65
        return self._groups[key]

    def real(self, name):
        def s():
            if self._int_typed(name):
                return self.rng.randint(-4, 4)
            u = self.rng.random()
            if u < 0.08:
                return 0.0
            if u < 0.16:
                return float(self.rng.randint(-3, 3))
            scale = 1.0 if self.flavour < 0.6 else (30.0 if self.flavour < 0.85 else 1e3)
            return self.rng.gauss(0.0, 1.0) * scale
        return self._get(name, s)

    def pos(self, name):
        if self._int_typed(name):
            return self._get(name, lambda: self.rng.randint(1, 5))
        return self._get(name, lambda: math.exp(self.rng.uniform(-3, 3)))

    def nonneg(self, name):
        if self._int_typed(name):
            return self._get(name, lambda: self.rng.randint(0, 4))
        return self._get(name, lambda: 0.0 if self.rng.random() < 0.1 else math.exp(self.rng.uniform(-3, 3)))

    def small(self, name, bound):
        if self._int_typed(name):
            b = int(math.floor(bound))
            return self._get(name, lambda: self.rng.randint(-b, b))
        return self._get(name, lambda: self.rng.uniform(-bound, bound))

    def angle(self, name):
        def s():
            if self._int_typed(name):
                return self.rng.randint(-7, 7)
            u = self.rng.random()
            if u < 0.1:
                return self.rng.choice([-1, 1]) * (math.pi - self.rng.random() * 1e-3)
            if u < 0.2:
                return self.rng.uniform(-30.0, 30.0)
            if u < 0.25:
                return 0.0
            return self.rng.uniform(-math.pi, math.pi)
        return self._get(name, s)

    def integer(self, name, lo=-3, hi=3):
        return self._get(name, lambda: self.rng.randint(lo, hi))

    def unit_quat(self, name):
        names = [name + c for c in "xyzw"]
        if all(n in self.draws for n in names):
            return [self.draws[n] for n in names]
        if all(n in self.point for n in names):
            q = [self.point[n] for n in names]
        elif self._int_typed(names[0]):
            q = [0, 0, 0, 0]
            q[self.rng.randrange(4)] = self.rng.choice([1, -1])
            for nm, v in zip(names, q):
                self.draws[nm] = v
            return q
        else:
            u = self.rng.random()
            if u < 0.07:
                q = [0.0, 0.0, 0.0, self.rng.choice([1.0, -1.0])]
            elif u < 0.17:                      # 180 degree rotation, w = 0
                q = [self.rng.gauss(0, 1) for _ in range(3)] + [0.0]
            elif u < 0.25:                      # one-axis
                q = [0.0, 0.0, 0.0, 0.0]
                q[self.rng.randrange(3)] = self.rng.gauss(0, 1)
                q[3] = self.rng.gauss(0, 1)
            else:
                q = [self.rng.gauss(0, 1) for _ in range(4)]
            n = math.sqrt(sum(x * x for x in q)) or 1.0
            q = [x / n for x in q]
            if n == 1.0 and not any(q):
                q = [0.0, 0.0, 0.0, 1.0]
        if self._int_typed(names[0]):
            q = [int(round(x)) for x in q]
            for nm, v in zip(names, q):
                self.draws[nm] = v
            return q
        n = math.sqrt(sum(x * x for x in q))
        q = [x / n for x in q]
        for nm, v in zip(names, q):
            self.draws[nm] = v
        return q

    def opaque(self, name):
        return self.real(name)

    def number_token(self, name, style=0):
        """(value, text): a number and a text of it that float() reads back exactly (varied but exact formats)."""
        v = float(self.real(name))
        styles = [repr, lambda x: "%.17e" % x, lambda x: "%+.17g" % x, lambda x: ("%.17E" % x), lambda x: repr(x).upper() if "e" in repr(x) else repr(x)]
        txt = styles[style % len(styles)](float(v))
        if float(txt) != float(v):
            txt = repr(float(v))
        return v, txt

    def install_tokens(self):
        pass

    def spd_matrix(self, name, n):
        names = [["%s_%d_%d" % (name, min(i, j), max(i, j)) for j in range(n)] for i in range(n)]
        flat = {nm for row in names for nm in row}
        if self._int_typed(names[0][0]) and not all(nm in self.point or nm in self.draws for nm in flat):
            L = [[(self.rng.randint(1, 3) if j == i else self.rng.randint(-2, 2)) if j <= i else 0 for j in range(n)] for i in range(n)]
            for i in range(n):
                for j in range(i, n):
                    self.draws.setdefault(names[i][j], sum(L[i][t] * L[j][t] for t in range(n)))
        if not all(nm in self.point or nm in self.draws for nm in flat):
            L = [[self.rng.gauss(0, 1) if j <= i else 0.0 for j in range(n)] for i in range(n)]
            scale = math.exp(self.rng.uniform(-1, 2))
            for i in range(n):
                for j in range(i, n):
                    v = scale * (sum(L[i][t] * L[j][t] for t in range(n)) + (0.05 if i == j else 0.0))
                    self.draws.setdefault(names[i][j], v)
        return self.np.array([[self._get(names[i][j], lambda: 0.0) for j in range(n)] for i in range(n)])

    # ---- preconditions
    def assume(self, cond, label=""):
        if not bool(cond):
            raise Reject(label)

    def assume_unit(self, q):
        pass

    # ---- goals
    def _scale(self, vals):
        m = 0.0
        for v in vals:
            try:
                a = abs(float(v))
            except (TypeError, ValueError):
                continue
            if a == a and a != float("inf"):
                m = max(m, a)
        return m

    def eq(self, a, b, label, rtol=None, atol=None, using=None):
        sa, va = self.flat(a)
        sb, vb = self.flat(b)
        if sa != sb:
            self.goals.append({"label": label, "kind": "eq", "ok": False, "detail": "shape %r vs %r" % (sa, sb)})
            return False
        rtol = self.rtol if rtol is None else rtol
        atol = self.atol if atol is None else atol
        scale = max(self._scale(va), self._scale(vb), 1.0)
        worst = 0.0
        worst_i = -1
        ok = True
        for i, (x, y) in enumerate(zip(va, vb)):
            x, y = float(x), float(y)
            if x != x or y != y:
                ok = False
                worst, worst_i = float("nan"), i
                break
            d = abs(x - y)
            lim = atol * scale + rtol * max(abs(x), abs(y))
            if d > lim:
                ok = False
            if d / scale > worst:
                worst, worst_i = d / scale, i
        g = {"label": label, "kind": "eq", "ok": ok, "n": len(va), "max_rel_dev": worst, "at": worst_i, "values": None}
        if not ok and worst_i >= 0:
            g["values"] = [float(va[worst_i]), float(vb[worst_i])]
        self.goals.append(g)
        return ok

    def holds(self, cond, label):
        ok = bool(cond)
        self.goals.append({"label": label, "kind": "holds", "ok": ok})
        return ok

    def implies(self, hyp, concl, label):
        ok = (not bool(hyp)) or bool(concl)
        self.goals.append({"label": label, "kind": "implies", "ok": ok, "vacuous": not bool(hyp)})
        return ok

    def same(self, a, b, label):
        """Identical values (bit-for-bit in floats; identical terms symbolically)."""
        sa, va = self.flat(a)
        sb, vb = self.flat(b)
        ok = sa == sb and all((x == y) or (x != x and y != y) for x, y in zip(va, vb))
        self.goals.append({"label": label, "kind": "same", "ok": bool(ok)})
        return ok

    # ---- derivative at 0 of f: R^dim -> array, by 8th-order central differences
    _COEF = {1: 4.0 / 5.0, 2: -1.0 / 5.0, 3: 4.0 / 105.0, 4: -1.0 / 280.0}

    def deriv(self, f, dim, h=None, wrap_rows=()):
        """wrap_rows: indices of output components that are angles (differences taken modulo 2*pi)."""
        np = self.np
        h = h or 2.0e-2
        cols = []
        for j in range(dim):
            acc = None
            for k_, c in self._COEF.items():
                dp = np.zeros(dim)
                dp[j] = k_ * h
                dm = np.zeros(dim)
                dm[j] = -k_ * h
                fp = np.asarray(f(dp), dtype=float).reshape(-1)
                fm = np.asarray(f(dm), dtype=float).reshape(-1)
                diff = fp - fm
                for w in wrap_rows:
                    diff[w] = (diff[w] + math.pi) % (2 * math.pi) - math.pi
                term = c * diff / h
                acc = term if acc is None else acc + term
            cols.append(acc)
        return np.array(cols).T

    def is_sym(self, x):
        return False

    def value(self, x):
        return float(x)

    def set_solver_model(self, model):
        """Numerically the real spsolve is used."""

    def system_equiv(self, A_code, rhs_code, A_spec, rhs_spec, dx, label, fixed_idx=()):
        """Numeric reading: the vector the real solver returned for the code's system solves the spec system."""
        np = self.np
        As = np.array([[float(x) for x in row] for row in A_spec])
        if As.size and (not np.all(np.isfinite(As)) or np.linalg.cond(As) > 1e9):
            raise Reject("the spec system is ill-conditioned: not a well-posed instance")
        Ac = np.array([[float(x) for x in row] for row in A_code])
        dxv = np.array([float(x) for x in dx])
        if Ac.size and (not np.all(np.isfinite(Ac)) or np.linalg.cond(Ac) > 1e12 or not np.all(np.isfinite(dxv))):
            self.goals.append({"label": label, "kind": "system", "ok": False,
                               "detail": "the system handed to the solver is singular (or its solution non-finite) while the spec system is well-conditioned"})
            return False
        ok = True
        worst = 0.0
        for i, row in enumerate(A_spec):
            terms = [float(a) * float(d) for a, d in zip(row, dxv)]
            res = sum(terms) - float(rhs_spec[i])
            scale = sum(abs(t) for t in terms) + abs(float(rhs_spec[i])) + 1e-12
            worst = max(worst, abs(res) / scale)
            if abs(res) > 1e-6 * scale + 1e-9:
                ok = False
        self.goals.append({"label": label, "kind": "system", "ok": ok, "max_rel_residual": worst})
        return ok
