"""Models of scipy.sparse.linalg.spsolve (an external function: assumed contract, never proved).

constrained   returns fresh symbols dx with the hypothesis A.dx = b recorded (the equations are kept in
              state.memo["solver_eqs"] so that obligations can use them as generators)
fault         returns unconstrained fresh symbols: algebraically this is what a singular solve / NaN is
"""


def sym_model(name):
    if name is None:
        return None
    from gsv.engine import sym as S, symnp
    from gsv.engine.poly import Poly

    def fresh(call, n, st):
        vals = []
        for i in range(n):
            v = st.var("dx%d_%d" % (call, i))
            vals.append(S.Sym(Poly.var(v)))
        return vals

    if name in ("constrained", "constrained-nonsingular"):
        def model(A, b, call):
            st = S.state()
            n = b.shape[0]
            if name == "constrained-nonsingular" and st.memo.get("solver_eqs"):
                # a NON-SINGULAR system with right-hand side 0 has the solution 0.  "rhs == 0" is decided modulo the
                # equations of the earlier solves (exact linear algebra, verified symbolically).
                from gsv.symkernel import linear_membership
                prev = st.memo["solver_eqs"]
                if all(x.d is None and linear_membership(st, x.n, prev) for x in b.values()):
                    st.notes.append(("solver", "rhs == 0 modulo earlier solves: returned 0 (assumes a non-singular system)"))
                    return symnp.zeros(n)
            dx = fresh(call, n, st)
            eqs = st.memo.setdefault("solver_eqs", [])
            for i in range(n):
                row = None
                for j in range(n):
                    a = A[i, j]
                    if a.n.is_zero():
                        continue
                    t = a * dx[j]
                    row = t if row is None else row + t
                row = (row if row is not None else S.Sym(0)) - b[i]
                eqs.append(row)      # kept as ghost state for the obligations (system_equiv / using=...); deliberately NOT
                                     # added to the SMT hypotheses: path feasibility never depends on them
            return symnp.array(dx)
        return model
    if name == "fault":
        def model(A, b, call):
            st = S.state()
            return symnp.array(fresh(call, b.shape[0], st))
        return model
    if name == "functional":
        # unconstrained but deterministic: the same (A, b) (same normal forms) gets the same symbols
        def model(A, b, call):
            st = S.state()
            key = ("spsolve", tuple(x.key() for x in A.values()), tuple(x.key() for x in b.values()))
            memo = st.memo.setdefault("spsolve_memo", {})
            if key not in memo:
                memo[key] = fresh(len(memo), b.shape[0], st)
            return symnp.array(list(memo[key]))
        return model
    raise KeyError(name)


def install_numeric(name, r, rng):
    """Numeric counterpart: returns an undo callable."""
    if name in (None, "constrained", "constrained-nonsingular", "functional"):
        return lambda: None
    if name == "fault":
        import numpy
        orig = r.graph.spsolve

        def bad(A, b, *a, **k):
            return numpy.array([rng.gauss(0, 1) for _ in range(len(b))])
        r.graph.spsolve = bad

        def undo():
            r.graph.spsolve = orig
        return undo
    raise KeyError(name)
