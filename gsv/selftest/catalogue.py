"""Seeded mutants and benign refactors, as textual edits.

Every entry was run against the repository's own test-suite (notes/catalogue-vs-testsuite.json): 20 mutants and all 10 refactors
pass all 189 tests; the mutants listed in KILLED_BY_SUITE are caught by the suite too and are kept only as detection sanity checks."""

KILLED_BY_SUITE = ['update-forgets-transpose', 'second-odometry-jacobian-wrong-boxplus', 'numerical-step-1e-4', 'numerical-jacobian-halved', 'se2-inverse-angle-plus-2pi-minus', 'landmark-error-ignores-offset-rotation-sign', 'graph-chi2-skips-last-edge']

SE3 = "graphslam/pose/se3.py"
SE2 = "graphslam/pose/se2.py"
R3 = "graphslam/pose/r3.py"
GRAPH = "graphslam/graph.py"
BASE_EDGE = "graphslam/edge/base_edge.py"
ODO = "graphslam/edge/edge_odometry.py"
LMK = "graphslam/edge/edge_landmark.py"
VERTEX = "graphslam/vertex.py"
BASE_POSE = "graphslam/pose/base_pose.py"
UTIL = "graphslam/util.py"


def m(id_, file, old, new, expect, **kw):
    e = {"file": file, "old": old, "new": new}
    e.update(kw)
    return {"id": id_, "kind": "mutant", "edits": [e], "expect": expect}


def rf(id_, file, old, new, silent, **kw):
    e = {"file": file, "old": old, "new": new}
    e.update(kw)
    return {"id": id_, "kind": "refactor", "edits": [e], "silent": silent}


CATALOGUE = [
    # ---- mutants that survive the test-suite and break a property
    m("se3-oplus-wrt-self-abs-w", SE3, "[0., 0., 0., other[6], other[5], -other[4], other[3]],", "[0., 0., 0., abs(other[6]), other[5], -other[4], other[3]],", ["C10", "C01"], occurrence=0),
    m("se3-point-jacobian-2.0000001", SE3, "return np.array([[1., 0., 0., 2. * self[4] * point[1]", "return np.array([[1., 0., 0., 2.0000001 * self[4] * point[1]", ["C10", "C01"]),
    m("vertex-se2-9-digits", VERTEX, '"VERTEX_SE2 {} {} {} {}\\n".format(', '"VERTEX_SE2 {} {:.9g} {:.9g} {:.9g}\\n".format(', ["C13"]),
    m("optimize-strict-decrease-in-loop", GRAPH, "if self._chi2 <= chi2_prev and rel_diff < tol:", "if self._chi2 < chi2_prev and rel_diff < tol:", ["C12"]),
    m("optimize-strict-decrease-after-loop", GRAPH, "ret.converged = self._chi2 <= chi2_prev and rel_diff < tol", "ret.converged = self._chi2 < chi2_prev and rel_diff < tol", ["C12"]),
    m("optimize-rel-diff-le-in-loop-only", GRAPH, "if self._chi2 <= chi2_prev and rel_diff < tol:", "if self._chi2 <= chi2_prev and rel_diff <= tol:", ["C12"]),
    m("optimize-rel-diff-against-new-chi2", GRAPH, "rel_diff = (chi2_prev - self._chi2) / (chi2_prev + np.finfo(float).eps)", "rel_diff = (chi2_prev - self._chi2) / (self._chi2 + np.finfo(float).eps)", ["C12"], occurrence=0),
    m("optimize-verbose-doubles-tol", GRAPH, "        if verbose:\n            print(\"\\nIteration", "        if verbose:\n            tol = tol * 2\n            print(\"\\nIteration", ["C12"]),
    m("accumulator-chi2-starts-at-1e-9", GRAPH, "        self.chi2 = 0.0\n", "        self.chi2 = 1e-9\n", ["C12"]),
    m("normalize-without-sign", SE3, "sgn = 1.0 if self[6] >= 0.0 else -1.0", "sgn = 1.0", ["C11"]),
    m("base-edge-equals-ignores-information-values", BASE_EDGE, "if self.information.shape != other.information.shape or np.linalg.norm(self.information - other.information) / max(np.linalg.norm(self.information), tol) >= tol:", "if self.information.shape != other.information.shape:", ["C17"]),
    m("base-pose-equals-10-tol", BASE_POSE, "max(np.linalg.norm(self.to_array()), tol) < tol", "max(np.linalg.norm(self.to_array()), tol) < 10 * tol", ["C17"]),
    m("graph-equals-ignores-vertex-count", GRAPH, "if len(self._edges) != len(other._edges) or len(self._vertices) != len(other._vertices):", "if len(self._edges) != len(other._edges):", ["C17"]),
    m("odometry-is-valid-one-dimension", ODO, "return self.information.shape == (n, n)", "return self.information.shape[0] == n", ["C18"]),
    m("edge-se2-prefix-without-blank", ODO, 'if line.startswith("EDGE_SE2 "):\n            numbers = line[len("EDGE_SE2 "):].split()', 'if line.startswith("EDGE_SE2"):\n            numbers = line[len("EDGE_SE2 "):].split()', ["C14"]),
    m("update-overwrites-on-high-first-branch", GRAPH, "chi2_grad_hess.hessian[idx2, idx1] += np.transpose(contrib)", "chi2_grad_hess.hessian[idx2, idx1] = np.transpose(contrib)", ["C03"]),
    m("update-forgets-transpose", GRAPH, "chi2_grad_hess.hessian[idx2, idx1] += np.transpose(contrib)", "chi2_grad_hess.hessian[idx2, idx1] += contrib", ["C03"]),
    m("second-odometry-jacobian-wrong-boxplus", ODO, "self.vertices[1].pose.jacobian_self_ominus_other_wrt_self(self.vertices[0].pose)), self.vertices[1].pose.jacobian_boxplus())]", "self.vertices[1].pose.jacobian_self_ominus_other_wrt_self(self.vertices[0].pose)), self.vertices[0].pose.jacobian_boxplus())]", ["C01"]),
    m("r3-identity-1e-9", R3, "return PoseR3([0.0, 0.0, 0.0])", "return PoseR3([1e-9, 0.0, 0.0])", ["C09"]),
    m("graph-equals-any-vertex", GRAPH, "and all(v1.equals(v2, tol) for v1, v2 in zip(self._vertices, other._vertices))", "and any(v1.equals(v2, tol) for v1, v2 in zip(self._vertices, other._vertices))", ["C17"]),
    m("odometry-is-valid-reads-vertex-1", ODO, "pose_type = type(self.vertices[0].pose)", "pose_type = type(self.vertices[1].pose)", ["C18"]),
    m("numerical-step-1e-4", BASE_EDGE, "_NUMERICAL_DIFFERENTIATION_EPSILON = 1e-6", "_NUMERICAL_DIFFERENTIATION_EPSILON = 1e-4", ["C16"]),
    m("numerical-jacobian-halved", BASE_EDGE, "(self.calc_error() - err) / self._NUMERICAL_DIFFERENTIATION_EPSILON", "(self.calc_error() - err) / (2 * self._NUMERICAL_DIFFERENTIATION_EPSILON)", ["C16"]),
    m("fixed-vertices-updated-again", GRAPH, "                if v.fixed:\n                    continue\n", "", ["C06"]),
    m("se2-inverse-angle-plus-2pi-minus", SE2, "self[0] * np.sin(self[2]) - self[1] * np.cos(self[2])],\n                       -self[2])", "self[0] * np.sin(self[2]) - self[1] * np.cos(self[2])],\n                       self[2])", ["C09"]),
    m("landmark-error-ignores-offset-rotation-sign", LMK, "return (((self.vertices[0].pose + self.offset).inverse + self.vertices[1].pose) - self.estimate).to_compact()", "return (((self.offset + self.vertices[0].pose).inverse + self.vertices[1].pose) - self.estimate).to_compact()", ["C02", "C07"]),
    m("graph-chi2-skips-last-edge", GRAPH, "self._chi2 = sum((e.calc_chi2() for e in self._edges))", "self._chi2 = sum((e.calc_chi2() for e in self._edges[:-1]))", ["C02", "C12"]),
    m("numerical-jacobian-keeps-perturbed-pose", BASE_EDGE, "        # Put back the very same pose object, so that not even the last bit of the pose changes\n        self.vertices[vertex_index].pose = original_pose\n", "", ["C15"]),
    # ---- benign refactors: must stay silent
    rf("fixed-block-2I", GRAPH, "= np.eye(rows, cols)", "= 2 * np.eye(rows, cols)", ["C03", "C06", "C12"]),
    rf("idx1-greater-equal", GRAPH, "if idx1 <= idx2:\n                chi2_grad_hess.hessian[idx1, idx2] += contrib\n            else:\n                chi2_grad_hess.hessian[idx2, idx1] += np.transpose(contrib)",
       "if idx1 >= idx2:\n                chi2_grad_hess.hessian[idx1, idx2] += contrib\n            else:\n                chi2_grad_hess.hessian[idx2, idx1] += np.transpose(contrib)", ["C03", "C06"]),
    rf("plus-eps-to-minus-eps", GRAPH, "/ (chi2_prev + np.finfo(float).eps)", "/ (chi2_prev - np.finfo(float).eps)", ["C12"], all=True),
    rf("wrap-minus-pi-form", UTIL, "return (angle + np.pi) % (TWO_PI) - np.pi", "return (angle - np.pi) % (TWO_PI) - np.pi", ["C11", "C09", "C01", "C08"]),
    rf("tril-indices-zero", UTIL, "tril1 = np.tril_indices(n, -1)", "tril1 = np.tril_indices(n, 0)", ["C14", "C13"]),
    rf("chi2-prev-dead-store", GRAPH, "chi2_prev = -1.0", "chi2_prev = self._chi2", ["C12"]),
    rf("blank-line-test", GRAPH, "if line.strip():", "if line != \"\\n\":", ["C14"]),
    rf("to-matrix-1-minus-2-form", SE3, "[[self[6]**2 + self[3]**2 - self[4]**2 - self[5]**2,", "[[1. - 2. * (self[4]**2 + self[5]**2),", ["C09"]),
    # `<` -> `<=` in BOTH places that apply the stopping test (the loop and the verdict at max_iter): inside the band.  Changing only one of
    # them makes the two tests disagree exactly at the tolerance -- that variant is a mutant (below), since round 3 of the seeded changes
    rf("optimize-rel-diff-le-tol", GRAPH, "rel_diff < tol", "rel_diff <= tol", ["C12"], all=True),
    rf("compact-via-slice-of-full", SE2, "    def jacobian_self_oplus_other_wrt_self_compact(self, other):", "    def _unused_helper(self):\n        return None\n\n    def jacobian_self_oplus_other_wrt_self_compact(self, other):", ["C10"]),
]
