"""Differential test of the polynomial engine against sympy (present in python3-vt): random polynomial expressions are built
both ways and compared term by term; normal forms modulo the unit-quaternion / cos-sin rules are compared with sympy's
reduction (division by the same generators); first-order jets are compared with sympy derivatives at 0."""
import random
from fractions import Fraction


def main(seed=0, rounds=60):
    import sympy
    from gsv.engine import sym as S, poly as P
    rnd = random.Random(seed)
    bad = 0
    n = 0
    for _ in range(rounds):
        st = S.new_state()
        names = ["x", "y", "z", "w", "c", "s", "u"]
        vs = {nm: S.Sym(P.Poly.var(st.var(nm))) for nm in names}
        sy = {nm: sympy.Symbol(nm) for nm in names}

        def build(depth):
            if depth == 0 or rnd.random() < 0.2:
                if rnd.random() < 0.3:
                    q = Fraction(rnd.randint(-5, 5), rnd.randint(1, 4))
                    return S.Sym(q), sympy.Rational(q.numerator, q.denominator)
                nm = rnd.choice(names)
                return vs[nm], sy[nm]
            a, sa = build(depth - 1)
            b, sb = build(depth - 1)
            op = rnd.choice("+-**")
            if op == "+":
                return a + b, sa + sb
            if op == "-":
                return a - b, sa - sb
            return a * b, sa * sb
        e, se = build(4)
        # 1. expansion agrees
        n += 1
        got = to_sympy(e.n, st, sy)
        if sympy.expand(got - se) != 0:
            bad += 1
            print("ENGINE-MISMATCH expand", got, se)
        # 2. normal form modulo w^2 -> 1-x^2-y^2-z^2 and c^2 -> 1-s^2 agrees with sympy's polynomial reduction
        rules = {st.pc.by_name["w"]: (S.Sym(1) - vs["x"] * vs["x"] - vs["y"] * vs["y"] - vs["z"] * vs["z"]).n,
                 st.pc.by_name["c"]: (S.Sym(1) - vs["s"] * vs["s"]).n}
        cof = {}
        nfp = P.nf(e.n, rules, cof)
        n += 1
        g1 = sy["w"] ** 2 - (1 - sy["x"] ** 2 - sy["y"] ** 2 - sy["z"] ** 2)
        g2 = sy["c"] ** 2 - (1 - sy["s"] ** 2)
        _, rem = sympy.reduced(sympy.expand(se), [g1, g2], sy["w"], sy["c"], sy["x"], sy["y"], sy["z"], sy["s"], sy["u"], order="lex")
        if sympy.expand(to_sympy(nfp, st, sy) - rem) != 0:
            bad += 1
            print("ENGINE-MISMATCH nf", to_sympy(nfp, st, sy), rem)
        # 3. the cofactor identity  e == nf + sum h_v (v^2 - r_v)
        n += 1
        recon = to_sympy(nfp, st, sy)
        for v, h in cof.items():
            gen = g1 if st.pc.names[v] == "w" else g2
            recon += to_sympy(h, st, sy) * gen
        if sympy.expand(recon - se) != 0:
            bad += 1
            print("ENGINE-MISMATCH cofactors")
        # 4. first-order jet = derivative at 0
        dv = st.pc.new_var("d_test", "inf")
        d = S.Sym(P.Poly.var(dv))
        sd = sympy.Symbol("d_test")
        shifted = e.n.subs({st.pc.by_name["x"]: (vs["x"] + 3 * d).n, st.pc.by_name["u"]: (vs["u"] - d * vs["y"]).n})
        jet = shifted.coeff_linear(dv).drop_vars([dv])
        want = sympy.diff(se.subs({sy["x"]: sy["x"] + 3 * sd, sy["u"]: sy["u"] - sd * sy["y"]}, simultaneous=True), sd).subs(sd, 0)
        n += 1
        if sympy.expand(to_sympy(jet, st, sy) - want) != 0:
            bad += 1
            print("ENGINE-MISMATCH jet")
        st.pc.inf.discard(dv)
    print("engine vs sympy: %d comparisons (expansion, normal form, cofactor identity, first-order jet), %d mismatches" % (n, bad))
    return bad == 0


def to_sympy(p, st, sy):
    import sympy
    tot = sympy.Integer(0)
    for m, c in p.t.items():
        c = Fraction(c)
        term = sympy.Rational(c.numerator, c.denominator)
        for v, e in m:
            term *= sy.get(st.pc.names[v], sympy.Symbol(st.pc.names[v])) ** e
        tot += term
    return tot
