"""Differential test of the numpy shim against the real numpy (python3-vt has both): the same operation sequences are run on
both modules with the same concrete inputs; values, shapes, result classes and ALIASING effects must agree.

Run by `python3-vt -m gsv setup`.  This covers the entry points the repository uses plus the margin the shim offers."""
import itertools
import random
from fractions import Fraction


def _atom_value(v, st, cache):
    """Numeric value of a sqrt atom: the square root of the value of its radicand (rules[v] is the radicand)."""
    if v not in cache:
        rad = st.pc.rules[v]
        cache[v] = _poly_value(rad, st, cache) ** 0.5
    return cache[v]


def _poly_value(p, st, cache):
    tot = 0.0
    for m, c in p.t.items():
        x = float(Fraction(c))
        for v, e in m:
            x *= _atom_value(v, st, cache) ** e
        tot += x
    return tot


def _val(x):
    from gsv.engine import sym as S
    if isinstance(x, S.Sym):
        st = S.state()
        cache = {}
        n = _poly_value(x.n, st, cache)
        return n if x.d is None else n / _poly_value(x.d, st, cache)
    return float(x)


def _norm(x, sh):
    """Normalise a result to (kind, shape, flat floats)."""
    import numpy as real
    if isinstance(x, (list, tuple)):
        return ("seq", tuple(_norm(e, sh) for e in x))
    if isinstance(x, sh.ndarray):
        return ("arr", tuple(x.shape), tuple(round(_val(v), 9) for v in x.values()))
    if isinstance(x, real.ndarray):
        return ("arr", tuple(x.shape), tuple(round(float(v), 9) for v in x.reshape(-1)))
    if isinstance(x, (bool, str)) or x is None:
        return ("py", x)
    return ("scalar", round(_val(x), 9))


CASES = []


def case(f):
    CASES.append(f)
    return f


@case
def slicing_views_write_through(np, d):
    a = np.array(d["m34"])
    v = a[1:, :2]
    v[0, 1] = 99.0
    t = a.T
    t[2, 0] = -5.0
    r = a[0]
    r[:] = 7.0
    return a, v, t


@case
def fancy_index_copies(np, d):
    a = np.array(d["m33"])
    idx = np.triu_indices(3, 0)
    u = a[idx]
    u[0] = 1000.0
    b = np.zeros((3, 3))
    b[idx] = u
    b[np.tril_indices(3, -1)] = b.T[np.tril_indices(3, -1)]
    return a, u, b


@case
def asarray_shares_array_copies(np, d):
    a = np.array(d["v4"])
    b = np.asarray(a)
    c = np.array(a)
    b[0] = 5.0
    c[1] = 6.0
    return a, b, c, (b is a)


@case
def inplace_ops_on_views(np, d):
    a = np.array(d["v7"])
    a[3:] /= 2.0
    a[:3] += np.array([1.0, 2.0, 3.0])
    g = np.zeros(6)
    g[2:5] += np.array(d["v3"])
    return a, g


@case
def tobytes_as_a_cache_key(np, d):
    a = np.array(d["v7"])
    b = np.array(d["v7"])
    c = np.array(d["v7"])
    c[5] = c[5] + 1.0
    whole = (a.tobytes() == b.tobytes(), a.tobytes() == c.tobytes(), hash(a.tobytes()) == hash(b.tobytes()))
    # element-aligned slices of the bytes select elements (8 bytes per float64)
    part = (a.tobytes()[24:56] == b.tobytes()[24:56], a.tobytes()[24:56] == c.tobytes()[24:56], a.tobytes()[:24] == c.tobytes()[:24],
            len(a.tobytes()), len(a.tobytes()[24:56]), a[3:].tobytes() == a.tobytes()[24:], (a.tobytes()[:8] + a.tobytes()[8:]) == a.tobytes())
    memo = {a.tobytes()[24:56]: 1}
    return whole, part, (b.tobytes()[24:56] in memo, c.tobytes()[24:56] in memo)


@case
def elementwise_comparisons_and_reductions(np, d):
    v, w = np.array(d["v4"]), np.array(d["v4"])
    w[1] = w[1] + 2.0
    return (bool(np.all(np.abs(v) < 1e6)), bool(np.all(np.abs(v) < 0.1)), bool((v > 0).any()), bool((v <= w).all()), bool((v == w).all()),
            bool(np.any(v != w)), bool(np.any(~(v < w))), np.max(v), np.min(v), v.max(), np.max(np.abs(v)), bool(np.max(v) > 0.0),
            bool(np.all((v < w) | (v == w))), bool(np.all((v <= w) & (w >= v))))


@case
def block_argmax_and_masks(np, d):
    A, v, w = np.array(d["m23"]), np.array(d["v3"]), np.array(d["v4"])
    R = np.array([[0.6, -0.8], [0.8, 0.6]])
    B = np.block([[R, np.zeros((2, 1))], [np.zeros((1, 2)), np.eye(1)]])
    C = np.block([[np.eye(2), A], [np.zeros((3, 2)), np.eye(3)]])
    D = np.block([v, w])
    neg = w < 0.0
    dec = neg | (w > 0.0)
    return (B, C, D, int(np.argmax(dec)), bool(dec.any() and neg[np.argmax(dec)]), int(np.argmax(w)), int(np.argmin(w)), int(np.argmax(np.abs(v))),
            [int(i) for i in np.flatnonzero(w > 0.0)], int(np.count_nonzero(w > 0.0)))


@case
def dot_variants(np, d):
    A, B, v, w = np.array(d["m33"]), np.array(d["m34"]), np.array(d["v3"]), np.array(d["v4"])
    return np.dot(A, B), np.dot(v, A), np.dot(A, v), np.dot(v, v), np.dot(np.dot(np.transpose(v), A), v), np.dot(np.transpose(B), A), A @ B


@case
def transpose_1d_and_2d(np, d):
    v, B = np.array(d["v3"]), np.array(d["m34"])
    return np.transpose(v), np.transpose(B), B.T.shape, np.transpose(B)[1]


@case
def eye_zeros_shapes(np, d):
    return np.eye(3), np.eye(2, 3), -np.eye(2), np.zeros(3), np.zeros((2, 3)), np.zeros((3,) + (2,)), 2 * np.eye(2), np.eye(3)[1]


@case
def column_assignment(np, d):
    J = np.zeros((2, 3))
    J[:, 1] = np.array([4.0, 5.0])
    J[:, 2] = (np.array([1.0, 2.0]) - np.array([0.5, 0.5])) / 1e-6
    return J


@case
def slice_assign_block(np, d):
    H = np.zeros((5, 5))
    H[1:3, 2:5] = np.array(d["m23"])
    H[2:5, 1:3] = np.transpose(np.array(d["m23"]))
    H[0:2, 0:2] = np.eye(2, 2)
    return H


@case
def norms_and_elementwise(np, d):
    v, A = np.array(d["v4"]), np.array(d["m33"])
    return np.linalg.norm(v), np.linalg.norm(A), np.linalg.norm(v[1:]), np.add(v, v), np.subtract(v, 2.0), v * 3 - 1, -v, abs(-v), v ** 2


@case
def broadcasting(np, d):
    A, v = np.array(d["m33"]), np.array(d["v3"])
    col = np.reshape(np.array([1.0, -1.0, 2.0]), (-1, 1))
    return A * v, col * A, A + 1.0, np.reshape(1.0, (-1, 1)) * A, A / 2.0


@case
def iteration_and_len(np, d):
    A = np.array(d["m34"])
    return [row[0] for row in A], len(A), A.shape, A[2, 3], A[-1, -1], [x for x in A[0]], A.shape + (2,)


@case
def concat_and_stack(np, d):
    v, w = np.array(d["v3"]), np.array(d["v4"])
    return np.concatenate([v, w]), np.hstack([v, w]), np.vstack([v, v]), np.array([v, v]).shape


@case
def negative_and_copy(np, d):
    A = np.array(d["m33"])
    B = A.copy()
    B[0, 0] = 123.0
    C = A[1:, 1:].copy()
    C[0, 0] = -1.0
    return A, B, C


@case
def float64_dtype_rounds_big_integers(np, d):
    a = np.array([2 ** 53 + 1, 3, -(2 ** 62) - 3], dtype=np.float64)
    b = np.array(["1700000000000000100", "2.5", "-1e3"], dtype=np.float64)
    return [int(a[0]), int(a[2])], int(b[0]), b[1], b[2]


@case
def diag_trace_outer(np, d):
    A, v = np.array(d["m33"]), np.array(d["v3"])
    return np.diag(v), np.diag(A), np.trace(A), np.outer(v, v), np.diagonal(A), np.sum(A), np.sum(A, axis=0), np.sum(A, axis=1)


@case
def array_equal_allclose(np, d):
    A = np.array(d["m33"])
    B = np.array(d["m33"])
    C = A + 1e-12
    return bool(np.array_equal(A, B)), bool(np.array_equal(A, C)), bool(np.allclose(A, C)), bool(np.allclose(A, A + 1.0)), bool(np.isclose(1.0, 1.0 + 1e-13))


@case
def fill_diagonal_and_out(np, d):
    A = np.zeros((3, 3))
    np.fill_diagonal(A, 1e-6)
    v = np.array(d["v3"])
    w = np.array(d["v3"])
    np.negative(w[1:], out=w[1:])
    np.add(v, v, out=v)
    q = np.array(d["v7"])
    return A, w, v, q[[6, 3, 4, 5]], A[1], bool(np.array(d["v3"]).any()), bool(np.zeros(2).any()), bool(np.array(d["v3"]).all())


@case
def readonly_arrays(np, d):
    a = np.array(d["v3"])
    a.setflags(write=False)
    try:
        a[0] = 1.0
        raised = False
    except ValueError:
        raised = True
    return raised, a, a * 2.0, bool(a.flags.writeable)


class _Sub:
    pass


def subclass_case(np):
    class P(np.ndarray):
        def __new__(cls, pos):
            return np.asarray(pos, dtype=np.float64).view(cls)

        def __add__(self, other):
            return P(np.add(self, other))
    base = np.array([1.0, 2.0, 3.0])
    p = P(base)
    q = p + np.array([1.0, 1.0, 1.0])
    s = p[:2]
    p[0] = 42.0          # writes through to base (asarray of an array is the array)
    return base, type(q).__name__, type(s).__name__, type(np.array(p)).__name__, isinstance(p, np.ndarray), q, np.array(s)


def data(rnd):
    def m(r, c):
        return [[round(rnd.uniform(-3, 3), 3) for _ in range(c)] for _ in range(r)]
    return {"m33": m(3, 3), "m34": m(3, 4), "m23": m(2, 3), "v3": m(1, 3)[0], "v4": m(1, 4)[0], "v7": m(1, 7)[0]}


def main(seed=0, rounds=3):
    import numpy as real
    from gsv.engine import symnp as sh
    from gsv.engine import sym as S
    S.new_state()
    rnd = random.Random(seed)
    bad = []
    n = 0
    for _ in range(rounds):
        d = data(rnd)
        for f in CASES:
            n += 1
            try:
                a = _norm(f(real, d), sh)
            except Exception as e:      # noqa: BLE001
                a = ("raised", type(e).__name__)
            try:
                b = _norm(f(sh, d), sh)
            except Exception as e:      # noqa: BLE001
                b = ("raised", type(e).__name__)
            if a != b:
                bad.append((f.__name__, str(a)[:300], str(b)[:300]))
    a, b = _norm(subclass_case(real), sh), _norm(subclass_case(sh), sh)
    n += 1
    if a != b:
        bad.append(("subclass_case", str(a)[:300], str(b)[:300]))
    for name, x, y in bad:
        print("SHIM-MISMATCH %s\n  numpy: %s\n  shim : %s" % (name, x, y))
    print("shim fidelity: %d operation sequences compared with the real numpy, %d mismatches" % (n, len(bad)))
    return not bad
