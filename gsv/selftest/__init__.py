"""Self-test of the machinery on scratch copies of the repository (never on /repo itself):

  mutants    changes measured to pass the existing test-suite that BREAK a property: the check of the expected property
             must report VIOLATION (exit 1) on the mutated copy
  refactors  algebraically / behaviourally equivalent rewrites: every listed check must stay silent (exit 0)

usage: python3-vt -m gsv selftest [--props C01 C12 ...] [--kind mutants|refactors|all]
"""
import json
import os
import shutil
import subprocess
import sys
import tempfile
import time

from gsv.selftest.catalogue import CATALOGUE

VERIF = os.path.dirname(os.path.dirname(os.path.dirname(os.path.abspath(__file__))))


def apply(entry, root):
    for ed in entry["edits"]:
        p = os.path.join(root, ed["file"])
        s = open(p).read()
        n = s.count(ed["old"])
        if n == 0:
            raise RuntimeError("%s: text to replace not found in %s" % (entry["id"], ed["file"]))
        occ = ed.get("occurrence", 0)
        if n > 1 and "occurrence" not in ed and not ed.get("all"):
            raise RuntimeError("%s: %d occurrences in %s, none selected" % (entry["id"], n, ed["file"]))
        if ed.get("all"):
            s = s.replace(ed["old"], ed["new"])
        else:
            idx = -1
            for _ in range(occ + 1):
                idx = s.index(ed["old"], idx + 1)
            s = s[:idx] + ed["new"] + s[idx + len(ed["old"]):]
        open(p, "w").write(s)


def run_check(prop, repo, tier="quick"):
    env = dict(os.environ)
    env["GSV_SELFTEST"] = "1"
    t = time.time()
    p = subprocess.run([sys.executable, "-m", "gsv", "check", prop, "--tier", tier, "--repo", repo], cwd=VERIF, env=env, capture_output=True, text=True)
    lines = [l for l in p.stdout.splitlines() if l.startswith(("VIOLATION", "CHECKER-ERROR", "UNDECIDED", "CONTRACT-DRIFT"))]
    return p.returncode, lines, time.time() - t


def main(props=None, kind="all", repo="/repo"):
    only_ids = [x for x in os.environ.get("GSV_SELFTEST_IDS", "").split(",") if x]
    props = [p.upper() for p in (props or [])]
    results = []
    ok = True
    tmp = tempfile.mkdtemp(prefix="gsv-selftest-")
    evid_backup = tempfile.mkdtemp(prefix="gsv-evid-")
    try:
        # the checks rewrite evidence/ and replays/: keep the real ones
        for d in ("evidence", "replays"):
            src = os.path.join(VERIF, d)
            if os.path.isdir(src):
                shutil.copytree(src, os.path.join(evid_backup, d))
        for entry in CATALOGUE:
            if kind != "all" and not entry["kind"].startswith(kind.rstrip("s")):
                continue
            if only_ids and entry["id"] not in only_ids:
                continue
            targets = entry.get("expect", []) if entry["kind"] == "mutant" else entry.get("silent", [])
            if props:
                targets = [t for t in targets if t in props]
            if not targets:
                continue
            root = os.path.join(tmp, entry["id"])
            os.makedirs(root)
            shutil.copytree(os.path.join(repo, "graphslam"), os.path.join(root, "graphslam"))
            try:
                apply(entry, root)
            except RuntimeError as e:
                print("SELFTEST-SKIP %s" % e)
                results.append({"id": entry["id"], "skipped": str(e)})
                shutil.rmtree(root)
                continue
            for prop in targets:
                rc, lines, dt = run_check(prop, root)
                if entry["kind"] == "mutant":
                    good = rc == 1 and any(l.startswith("VIOLATION property=%s" % prop) for l in lines)
                else:
                    good = rc == 0 and not any(l.startswith("VIOLATION") for l in lines)
                ok = ok and good
                print("%s %-9s %-60s %s exit=%d %.0fs %s" % ("ok  " if good else "FAIL", entry["kind"], entry["id"], prop, rc, dt,
                                                           "" if good else " | ".join(lines[:2])[:300]))
                results.append({"id": entry["id"], "kind": entry["kind"], "property": prop, "exit": rc, "good": good, "seconds": round(dt, 1),
                                "first_lines": lines[:3]})
            shutil.rmtree(root)
    finally:
        shutil.rmtree(tmp, ignore_errors=True)
        for d in ("evidence", "replays"):
            dst = os.path.join(VERIF, d)
            shutil.rmtree(dst, ignore_errors=True)
            src = os.path.join(evid_backup, d)
            if os.path.isdir(src):
                shutil.copytree(src, dst)
        shutil.rmtree(evid_backup, ignore_errors=True)
    out = os.path.join(VERIF, "selftest_results.json")
    with open(out, "w") as f:
        json.dump({"results": results, "all_good": ok}, f, indent=1)
    print("selftest: %d runs, %s" % (len([r for r in results if "good" in r]), "all as expected" if ok else "SOME NOT AS EXPECTED"))
    return 0 if ok else 1
