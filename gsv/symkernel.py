"""Symbolic interpretation of obligations (proving interpreter only: imports the SMT layer)."""
import contextlib
from gsv.engine import loader
import io
import time
from fractions import Fraction

from gsv.engine import poly as P
from gsv.engine import sym as S
from gsv.engine import smt, symnp, symscipy
from gsv.engine.poly import Poly
from gsv.engine.sym import Sym, SymBool, Unsupported, PathAbort
from gsv.kernel import BaseKernel

MAX_PATHS = 600


class SymKernel(BaseKernel):
    mode = "sym"

    def __init__(self, repo, state):
        super().__init__(repo)
        self.st = state
        self.pending = []
        self.input_names = []
        self._seen = set()
        self._assumed = set()
        # float()/int() of a symbolic number inside the repository's modules give the number itself, in every obligation (module
        # state is restored before each path, so this is re-installed here)
        self.install_tokens()

    # ---- inputs
    def _var(self, name, kind="real"):
        v = self.st.var(name, kind)
        if name not in self._seen:
            self._seen.add(name)
            self.input_names.append(name)
        return Sym(Poly.var(v))

    def real(self, name):
        return self._var(name)

    def opaque(self, name):
        return self._var(name)

    def pos(self, name):
        x = self._var(name)
        if ("pos", name) not in self._assumed:
            self._assumed.add(("pos", name))
            self.st.assume(("lt", -x))
        return x

    def nonneg(self, name):
        x = self._var(name)
        if ("nonneg", name) not in self._assumed:
            self._assumed.add(("nonneg", name))
            self.st.assume(("le", -x))
        return x

    def small(self, name, bound):
        x = self._var(name)
        self.st.assume(("le", x - Sym(bound)))
        self.st.assume(("le", -x - Sym(bound)))
        return x

    def angle(self, name):
        return self._var(name, "angle")

    def integer(self, name, lo=None, hi=None):
        x = self._var(name, "int")
        if lo is not None:
            self.st.assume(("le", Sym(lo) - x))
        if hi is not None:
            self.st.assume(("le", x - Sym(hi)))
        return x

    def number_token(self, name, style=0):
        """(value, text): a symbolic number and the opaque token that stands for its text."""
        v = self._var(name)
        return v, format(v, "")

    def install_tokens(self):
        """Shadow float/int in EVERY loaded module of the repository (wherever a refactor may have moved the parsing code), so
        that number tokens read back as their symbols."""
        import sys
        from gsv.engine import tokens
        tokens.install([m for name, m in list(sys.modules.items()) if m is not None and (name == "graphslam" or name.startswith("graphslam."))])

    def unit_quat(self, name):
        x, y, z, w = [self._var(name + c) for c in "xyzw"]
        wv = self.st.pc.by_name[name + "w"]
        self.st.pc.rules[wv] = (Sym(1) - x * x - y * y - z * z).n
        self.st.unit_quats.append([x, y, z, w])
        return [x, y, z, w]

    # ---- preconditions
    def assume(self, cond, label=""):
        if isinstance(cond, SymBool):
            self.st.assume(cond.f)
        elif not cond:
            raise PathAbort()

    # ---- goals (discharged at the end of the path, under the complete path condition)
    def eq(self, a, b, label, using=None, rtol=None, atol=None):
        sa, va = self.flat(a)
        sb, vb = self.flat(b)
        if sa != sb:
            self.goals.append({"label": label, "kind": "eq", "status": "failed", "detail": "shape %r vs %r" % (sa, sb), "n": 0})
            return False
        self.pending.append(("eq", label, [(Sym.lift(x), Sym.lift(y)) for x, y in zip(va, vb)], using))
        return True

    def same(self, a, b, label):
        sa, va = self.flat(a)
        sb, vb = self.flat(b)
        if sa != sb:
            self.goals.append({"label": label, "kind": "same", "status": "failed", "detail": "shape %r vs %r" % (sa, sb), "n": 0})
            return False
        self.pending.append(("same", label, [(Sym.lift(x), Sym.lift(y)) for x, y in zip(va, vb)], None))
        return True

    def holds(self, cond, label):
        self.pending.append(("holds", label, S.formula_of(cond), None))
        return True

    def implies(self, hyp, concl, label):
        self.pending.append(("holds", label, ("or", ("not", S.formula_of(hyp)), S.formula_of(concl)), None))
        return True

    def check(self, cond, label, detail=None):
        g = {"label": label, "kind": "struct", "status": "proved" if cond else "failed", "backend": "concrete", "n": 1}
        if detail is not None and not cond:
            g["detail"] = str(detail)[:600]
        self.goals.append(g)

    def returns(self, thunk, label):
        v = super().returns(thunk, label)
        g = self.goals[-1]
        g["status"] = "proved" if g.pop("ok") else "failed"
        g["backend"] = "execution"
        g["n"] = 1
        if g["status"] == "failed":
            import re
            if re.search(r"@[SL]\d+@", g.get("detail", "")):
                # an opaque number token reached a conversion that is not shadowed: a limit of the model, not an observation
                self.goals.pop()
                raise Unsupported("a number token reached an unshadowed float()/int(): %s" % g.get("detail", "")[:160])
            # an exception observed under the shim counts only if the real code reproduces it (decided by the runner)
            g["shim_exception"] = True
        return v

    def raises(self, thunk, label, exc=Exception):
        ok = super().raises(thunk, label, exc)
        g = self.goals[-1]
        g["status"] = "proved" if g.pop("ok") else "failed"
        g["backend"] = "execution"
        g["n"] = 1
        return ok

    # ---- derivative at 0 by first-order jets
    def deriv(self, f, dim, h=None, wrap_rows=()):
        st = self.st
        st.counter += 1
        tag = st.counter
        dvars = [st.pc.new_var("d%d_%d" % (tag, j), "inf") for j in range(dim)]
        delta = symnp.array([Sym(Poly.var(v)) for v in dvars])
        try:
            out = f(delta)
        finally:
            pass
        _, vals = self.flat(out)
        rows = []
        for val in vals:
            val = Sym.lift(val)
            row = []
            for v in dvars:
                n1 = val.n.coeff_linear(v).drop_vars(dvars)
                if val.d is None:
                    row.append(Sym(n1))
                else:
                    n0 = val.n.drop_vars(dvars)
                    d0 = val.d.drop_vars(dvars)
                    d1 = val.d.coeff_linear(v).drop_vars(dvars)
                    row.append(Sym(n1 * d0 - n0 * d1, d0 * d0))
            rows.append(row)
        for v in dvars:
            st.pc.inf.discard(v)
        return symnp.array(rows) if rows else symnp.zeros((0, dim))

    def is_sym(self, x):
        return isinstance(x, Sym) and not x.is_const()

    def set_solver_model(self, model):
        """Install an obligation-specific model of spsolve (symbolic interpretation only)."""
        symscipy.GHOST["model"] = model

    def system_equiv(self, A_code, rhs_code, A_spec, rhs_spec, dx, label, fixed_idx=()):
        """The linear system the code handed to the solver is EQUIVALENT to the spec system (same solution set):

          1. every unknown that the spec pins to zero is forced to zero by the code's equations
             (dx_j in the Q-span of the code equations);
          2. with those unknowns substituted by 0, every spec equation is in the Q-span of the code equations,
          3. and every code equation is in the Q-span of the spec equations.

        Candidate cofactors come from exact linear algebra over Q and are verified symbolically (normal form of the
        residual is the zero polynomial modulo the rewrite rules), so a wrong guess cannot produce a proof.  Stated this
        way a fixed vertex's block may be any non-singular matrix, rows may be scaled, coupling blocks may be stored or
        not -- none of which changes the step -- while a lost contribution, a missing transpose or a wrong slice breaks a
        direction."""
        st = self.st
        t0 = time.time()
        dxs = [Sym.lift(d) for d in dx]
        n = len(dxs)

        def eqs(A, rhs):
            out = []
            for i in range(len(A)):
                acc = Sym(0)
                for j in range(n):
                    a = Sym.lift(A[i][j])
                    if not a.n.is_zero():
                        acc = acc + a * dxs[j]
                acc = acc - Sym.lift(rhs[i])
                if acc.d is not None:
                    raise Unsupported("rational entries in a linear system")
                out.append(P.nf(acc.n))
            return out
        code = eqs(A_code, rhs_code)
        spec = eqs(A_spec, rhs_spec)
        bad = []
        zero = []
        for j in fixed_idx:
            if linear_membership(st, dxs[j].n, code):
                zero.append(j)
            else:
                bad.append("the code's system does not force unknown %d (pinned to zero by the spec) to zero" % j)
        sub = {}
        for j in zero:
            terms = list(dxs[j].n.t.items())
            # an unknown that is a plain solver symbol is substituted by 0; anything else (already 0, or an expression the
            # code wrote into dx) is left alone
            if len(terms) == 1 and len(terms[0][0]) == 1 and terms[0][0][0][1] == 1 and terms[0][1] == 1:
                sub[terms[0][0][0][0]] = 0
        code0 = [P.nf(p.drop_vars(sub.keys())) for p in code]
        spec0 = [P.nf(p.drop_vars(sub.keys())) for p in spec]
        code0nz = [p for p in code0 if not p.is_zero()]
        spec0nz = [p for p in spec0 if not p.is_zero()]
        for i, p in enumerate(spec0):
            if not p.is_zero() and not linear_membership(st, p, code0nz):
                bad.append("spec equation %d does not follow from the code's system" % i)
        for i, p in enumerate(code0):
            if not p.is_zero() and not linear_membership(st, p, spec0nz):
                bad.append("code equation %d does not follow from the spec system" % i)
        g = {"label": label, "kind": "system", "n": len(code) + len(spec) + len(list(fixed_idx)), "backend": "nf+linear-cofactors",
             "status": "failed" if bad else "proved", "time_s": round(time.time() - t0, 3),
             "max_terms": max([len(p) for p in code + spec] or [0])}
        if bad:
            g["detail"] = "; ".join(bad[:6])
        self.goals.append(g)
        return not bad

    # ---- discharge
    def finish(self, cert_sink=None):
        st = self.st
        for kind, label, payload, using in self.pending:
            t0 = time.time()
            if kind in ("eq", "same"):
                g = self._discharge_eq(kind, label, payload, using, cert_sink)
            else:
                g = self._discharge_formula(label, payload)
            g["time_s"] = round(time.time() - t0, 4)
            self.goals.append(g)
        self.pending = []

    def _discharge_eq(self, kind, label, pairs, using, cert_sink):
        st = self.st
        failed = []
        unknown = []
        backend = set()
        maxterms = 0
        model = None
        smt_budget = 1          # SMT is tried on failing entries only while it keeps proving them
        for i, (a, b) in enumerate(pairs):
            if a.d is None and b.d is None:
                num = a.n - b.n
            else:
                ad = a.d if a.d is not None else P.ONE
                bd = b.d if b.d is not None else P.ONE
                num = a.n * bd - b.n * ad
            maxterms = max(maxterms, len(num))
            if num.is_zero():
                backend.add("syntactic")
                continue
            cof = {}
            r = P.nf(num, cof=cof)
            if r.is_zero():
                backend.add("nf")
                if cert_sink is not None:
                    cert_sink.append((label, i, num, cof))
                continue
            if kind == "same":
                failed.append((i, r))
                continue
            if using:
                ok = linear_membership(st, r, using)
                if ok:
                    backend.add("nf+linear-cofactors")
                    continue
            if smt_budget > 0:
                verdict, mdl, be = smt.prove(st, ("eq", Sym(r)), timeout_ms=3000, use_cvc5=False)
                if verdict == "proved":
                    backend.add(be)
                    continue
                smt_budget -= 1
                if verdict == "refuted":
                    model = model or mdl
            failed.append((i, r))
        g = {"label": label, "kind": kind, "n": len(pairs), "max_terms": maxterms, "backend": "+".join(sorted(backend)) or "none"}
        if failed:
            g["status"] = "failed"
            i, r = failed[0]
            g["failed_entries"] = [j for j, _ in failed][:40]
            rs = repr(r)
            g["residual"] = rs if len(rs) < 600 else rs[:600] + " ...(%d terms)" % len(r)
            if model:
                g["model"] = model
        else:
            g["status"] = "proved"
        return g

    def _discharge_formula(self, label, f):
        st = self.st
        try:
            verdict, mdl, be = smt.prove(st, f, timeout_ms=20000)
        except Unsupported as e:
            return {"label": label, "kind": "holds", "n": 1, "status": "unknown", "detail": str(e), "backend": "none"}
        g = {"label": label, "kind": "holds", "n": 1, "backend": be}
        if verdict == "proved":
            g["status"] = "proved"
        elif verdict == "refuted":
            g["status"] = "failed"
            g["model"] = mdl
        else:
            g["status"] = "unknown"
        return g


def linear_membership(st, target, gens, points=3, seed=1, multipliers=None):
    """Is target in the Q-span (constant cofactors) of gens, modulo the rewrite rules?

    gens/target are Polys (or Syms without denominator).  The candidate coefficients are found by exact
    linear algebra on evaluations at random rational points of the free variables and then *verified
    symbolically* (normal form of target - sum c_i g_i is the zero polynomial), so a wrong guess cannot
    produce a proof.
    """
    import random
    gens = [g.n if isinstance(g, Sym) else g for g in gens]
    if multipliers:
        # bounded-degree cofactors: constants times the listed multiplier polynomials
        ms = [m.n if isinstance(m, Sym) else m for m in multipliers]
        gens = gens + [m * g for m in ms for g in gens]
    gens = [P.nf(g) for g in gens if not g.is_zero()]
    target = P.nf(target)
    if target.is_zero():
        return True
    if not gens:
        return False
    # fast path: the target IS one of the generators (the usual case: the code's row and the spec's row are the same polynomial)
    tk = target.key()
    for g in gens:
        if len(g.t) == len(target.t) and g.key() == tk:
            return True
    # solve  sum c_i g_i = target  coefficient-wise: exact SPARSE elimination over Q (unknowns = generators, one
    # equation per monomial)
    rows = {}
    for j_, g in enumerate(gens):
        for m, c in g.t.items():
            rows.setdefault(m, {})[j_] = Fraction(c)
    RHS = len(gens)
    for m, c in target.t.items():
        if m not in rows:
            return False            # a monomial of the target that no generator has
        rows[m][RHS] = Fraction(c)
    sol = _solve_sparse(rows, len(gens))
    if sol is None:
        return False
    resid = target
    for c, g in zip(sol, gens):
        if c != 0:
            resid = resid - g.scale(c)
    return P.nf(resid).is_zero()


def _solve_sparse(rows, nvars):
    """rows: dict key -> {col: value} with column nvars the right-hand side.  Returns one solution or None."""
    RHS = nvars
    bycol = {}
    for key, row in rows.items():
        for c in row:
            if c != RHS:
                bycol.setdefault(c, set()).add(key)
    pivots = {}        # col -> row key
    used = set()
    for col in range(nvars):
        cand = [k_ for k_ in bycol.get(col, ()) if k_ not in used]
        if not cand:
            continue
        pk = min(cand, key=lambda k_: len(rows[k_]))
        prow = rows[pk]
        pv = prow[col]
        if pv != 1:
            for c in list(prow):
                prow[c] = prow[c] / pv
        used.add(pk)
        pivots[col] = pk
        for ok in list(bycol.get(col, ())):
            if ok == pk:
                continue
            orow = rows[ok]
            f = orow.get(col)
            if not f:
                continue
            for c, v in prow.items():
                nv = orow.get(c, 0) - f * v
                if nv == 0:
                    if c in orow:
                        del orow[c]
                        if c != RHS:
                            bycol[c].discard(ok)
                else:
                    if c not in orow and c != RHS:
                        bycol.setdefault(c, set()).add(ok)
                    orow[c] = nv
    for key, row in rows.items():
        if key in used:
            continue
        if RHS in row and row[RHS] != 0 and len(row) == 1:
            return None
        if RHS in row and row[RHS] != 0 and all(c == RHS for c in row):
            return None
    sol = [Fraction(0)] * nvars
    for col, pk in pivots.items():
        sol[col] = rows[pk].get(RHS, Fraction(0))
    return sol


def _solve_exact(rows, nvars):
    """Solve the (possibly over-determined) system rows[:, :nvars] x = rows[:, nvars]; None if inconsistent."""
    rows = [r[:] for r in rows if any(r)]
    piv_cols = []
    rix = 0
    for col in range(nvars):
        p = None
        for i in range(rix, len(rows)):
            if rows[i][col] != 0:
                p = i
                break
        if p is None:
            continue
        rows[rix], rows[p] = rows[p], rows[rix]
        pv = rows[rix][col]
        rows[rix] = [x / pv for x in rows[rix]]
        for i in range(len(rows)):
            if i != rix and rows[i][col] != 0:
                f = rows[i][col]
                rows[i] = [x - f * y for x, y in zip(rows[i], rows[rix])]
        piv_cols.append(col)
        rix += 1
        if rix == len(rows):
            break
    for i in range(rix, len(rows)):
        if rows[i][nvars] != 0 and not any(rows[i][:nvars]):
            return None
    sol = [Fraction(0)] * nvars
    for i, col in enumerate(piv_cols):
        sol[col] = rows[i][nvars]
    return sol


# --------------------------------------------------------------------------- running an obligation over all paths

def run_symbolic(fn, repo, eager=False, cert_backends=("z3",), max_paths=MAX_PATHS, solver_model=None, light=False):
    """Execute fn(k) on every feasible control path.  Returns a result dict (JSON-able except 'certs')."""
    work = [[]]
    paths = []
    n_failing_paths = 0
    n_certs = 0
    notes = []
    status = "proved"
    t0 = time.time()
    inputs = []
    while work:
        trail = work.pop()
        if len(paths) >= max_paths:
            # a goal that failed on an explored path stays failed (the path is feasible and real); only "proved" becomes "unknown"
            if status not in ("failed", "checker-error"):
                status = "unknown"
            notes.append("path limit %d reached" % max_paths)
            break
        st = S.new_state()
        st.trail = list(trail)
        st.eager = eager
        st.light_only = light
        st.decider = smt.decider
        st.range_oracle = smt.range_oracle
        symscipy.reset_ghost(solver_model)
        loader.restore_state(repo)
        k = SymKernel(repo, st)
        rec = {"trail": None, "goals": []}
        certs = []
        try:
            with contextlib.redirect_stdout(io.StringIO()):
                fn(k)
            k.finish(certs if cert_backends else None)
            if st.path and any(g["status"] == "failed" for g in k.goals):
                # a goal failed: is this control path feasible at all?  (asked only now; a path that an earlier decision could not
                # exclude -- solver "unknown" -- may be empty, and a goal that fails on an empty path says nothing)
                r_feas, _m = smt.check_sat(st, [], 5000, light=True)
                if r_feas != "unsat" and not light and smt._has_definitions(st):
                    r_full, _m = smt.check_sat(st, [], 5000, light=False)
                    r_feas = r_full if r_full in ("sat", "unsat") else "unknown"
                if r_feas == "unsat":
                    notes.append("a control path on which goals failed is infeasible (unsat): dropped")
                    work.extend(st.work)
                    continue
                for g in k.goals:
                    if g["status"] == "failed":
                        g["path_feasible"] = r_feas
            if certs and cert_backends:
                cc = smt.check_certificates(st, certs, cert_backends)
                rec["cert_check"] = {"n": len(certs), "results": {b: v for b, v in cc.items() if not b.startswith("_")}}
                n_certs += len(certs)
                for b, v in cc.items():
                    if b.startswith("_"):
                        continue
                    if v[0] == "sat":
                        status = "checker-error"
                        notes.append("certificate rejected by %s" % b)
                    elif v[0] != "unsat":
                        notes.append("certificate not confirmed by %s: %s" % (b, v[0]))
        except PathAbort:
            work.extend(st.work)
            continue
        except Unsupported as e:
            rec["unsupported"] = str(e)
            status = "unknown" if status != "failed" else status
        except RecursionError as e:
            rec["unsupported"] = "recursion: %s" % e
            status = "unknown" if status != "failed" else status
        except TimeoutError as e:
            # the budget ran out in the middle of a path: goals that FAILED on completed paths stand (those paths are feasible and
            # were fully executed); otherwise the obligation is undecided
            if status == "failed" and paths:
                notes.append("%s; stopped with %d path(s) explored, of which some failed" % (e, len(paths)))
                break
            raise
        except Exception as e:      # noqa: BLE001
            if "TimeoutError: obligation exceeded its time budget" in str(e):
                if status == "failed" and paths:
                    notes.append("time budget exceeded; stopped with %d path(s) explored, of which some failed" % len(paths))
                    break
                raise TimeoutError(str(e))
            # an exception raised BY THE REPOSITORY CODE (innermost frame in the repository tree) where the obligation
            # expected a normal return is an observation (failed goal); anything else is a checker error
            import traceback
            tb = traceback.extract_tb(e.__traceback__)
            root = repo.path.rstrip("/") + "/"
            repo_frames = [f for f in tb if f.filename.startswith(root)]
            if not repo_frames:
                raise
            inner = tb[-1]
            in_shim = not inner.filename.startswith(root)
            # in_shim: the exception surfaced inside the numpy shim / token layer while the repository code was running (e.g. int('XY')
            # through the shadowed int).  It counts as an observation only if the real code reproduces it (decided by the runner).
            k.goals.append({"label": "the repository code raised where a normal return was expected", "kind": "returns", "status": "failed",
                            "n": 1, "backend": "execution", "shim_exception": in_shim,
                            "detail": "%s: %s at %s:%s (called from %s:%s)" % (type(e).__name__, e, inner.filename, inner.lineno,
                                                                              repo_frames[-1].filename, repo_frames[-1].lineno)})
        rec["trail"] = list(st.trail)
        rec["goals"] = k.goals
        rec["n_hyps"] = len(st.hyps)
        rec["notes"] = [(n[0], repr(n[1])[:120]) for n in st.notes[:20]]
        rec["info"] = k.info
        inputs = k.input_names
        # vacuity: the path must be satisfiable together with the preconditions (cheap z3 check, unknown tolerated)
        for g in k.goals:
            if status == "checker-error":
                break
            if g["status"] == "failed":
                status = "failed"
            elif g["status"] == "unknown" and status != "failed":
                status = "unknown"
        paths.append(rec)
        work.extend(st.work)
        if any(g["status"] == "failed" for g in k.goals):
            n_failing_paths += 1
            if n_failing_paths >= 3 and work:
                # the verdict cannot change any more: do not spend the budget on the remaining control paths
                notes.append("stopped after %d failing control paths (%d paths not explored)" % (n_failing_paths, len(work)))
                break
    return {"status": status, "paths": paths, "n_certs": n_certs, "wall_s": round(time.time() - t0, 3), "notes": notes, "inputs": inputs}
