"""C04 -- linear (R^2 / R^3) graphs are solved to the global weighted-least-squares optimum.

For R^n graphs the residual is affine, so the whole-run property reduces to contracts.  Per shape (trees, loops,
multi-edges, point-to-point landmark edges with offsets), with symbolic initial guess, measurements, offsets, full
symmetric information and every listed fixed set:

  affine        calc_error(x [+] d) == calc_error(x) + J d identically, J independent of the poses
  stationary    run the real optimize(); after the first update the reduced gradient b_f(x1) of the spec assembler is
                literally a combination of the solver's equations: the returned state solves the normal equations
                WHATEVER the initial guess
  report        the second solve sees a zero right-hand side (non-singular H assumed: connected, >= 1 fixed, Omega > 0),
                so the state stays x1, the run reports converged, and final_chi2 == chi2(x1) == calc_chi2()
  quadratic     chi2(x1 + d) - chi2(x1) - 2 b(x1).d - d^T H d == 0 identically: with b_f(x1) = 0 and Omega >= 0 the
                stationary point is a global minimiser (unique when H_ff > 0)
"""
from gsv.ob import Ob
from gsv.kernel import POSE_C
from gsv.specs import gn
from gsv.contracts import common, graphs

FUNCS = ["graphslam.graph.Graph.optimize", "graphslam.pose.r2.PoseR2", "graphslam.pose.r3.PoseR3",
         "graphslam.edge.edge_odometry.EdgeOdometry.calc_error", "graphslam.edge.edge_landmark.EdgeLandmark.calc_error"]


def linear_shapes(tier, seed):
    import random
    shapes = []

    def mk(T, n, edges, fixed, name):
        ids = [3 * i - 4 for i in range(n)]
        return {"vertices": [(ids[i], T, i in fixed) for i in range(n)],
                "edges": [(kind, tuple(ids[p] for p in ps), 0) for kind, ps in edges],
                "fix_first_pose": False, "idset": 0, "pattern": name, "name": "%s/%s/fixed=%s" % (T, name, ",".join(map(str, sorted(fixed))))}
    for T in ("R2", "R3"):
        shapes.append(mk(T, 2, [("odometry", (0, 1))], {0}, "pair"))
        shapes.append(mk(T, 2, [("odometry", (1, 0)), ("odometry", (0, 1))], {1}, "double-edge"))
        shapes.append(mk(T, 3, [("odometry", (0, 1)), ("odometry", (1, 2))], {0}, "path3"))
        # parallel edges in OPPOSITE directions between two FREE vertices (a block is only exercised when both ends are free)
        shapes.append(mk(T, 3, [("odometry", (0, 1)), ("odometry", (1, 0)), ("landmark", (1, 2)), ("landmark", (2, 1)), ("odometry", (2, 0))], {2}, "opposite-parallel-free"))
        shapes.append(mk(T, 3, [("odometry", (0, 1)), ("odometry", (1, 2)), ("odometry", (2, 0))], {1}, "cycle3"))
        shapes.append(mk(T, 3, [("odometry", (0, 1)), ("landmark", (1, 2)), ("landmark", (0, 2))], {0}, "landmarks"))
        shapes.append(mk(T, 3, [("odometry", (0, 1)), ("odometry", (2, 1)), ("landmark", (2, 0))], {0, 1}, "cycle3-two-fixed"))
        shapes.append(mk(T, 4, [("odometry", (0, 1)), ("odometry", (0, 2)), ("odometry", (3, 0))], {0, 3}, "star4"))
        if T == "R2" or tier == "thorough":
            shapes.append(mk(T, 4, [("odometry", (0, 1)), ("odometry", (1, 2)), ("odometry", (2, 3)), ("odometry", (3, 0)), ("landmark", (0, 2))], {2}, "cycle4-chord"))
            shapes.append(mk(T, 5, [("odometry", (0, 1)), ("odometry", (1, 2)), ("landmark", (2, 3)), ("landmark", (1, 3)), ("odometry", (3, 4)), ("odometry", (4, 0))], {4}, "loop5"))
    if tier == "thorough":
        rnd = random.Random(seed)
        for t in range(6):
            T = rnd.choice(["R2", "R3"])
            n = rnd.randint(6, 30)
            edges = [(rnd.choice(["odometry", "odometry", "landmark"]), (rnd.randrange(i), i)) for i in range(1, n)]   # spanning tree
            for _ in range(rnd.randint(0, n // 2)):
                a, b = rnd.sample(range(n), 2)
                edges.append((rnd.choice(["odometry", "landmark"]), (a, b)))
            fixed = set(rnd.sample(range(n), rnd.randint(1, 3)))
            shapes.append(mk(T, n, edges, fixed, "random%d-n%d" % (t, n)))
    return shapes


def solve(k, shape, max_iter, history=None, shared_start=False, reuse_edges=False):
    ghost = common.Ghost()
    g, vs, es = graphs.build(k, shape, ghost)
    dims = [POSE_C[T] for _, T, _ in shape["vertices"]]
    fixed_pos = graphs.fixed_positions(shape)
    if reuse_edges:
        # solve the same measurements a second time from another initial guess: the SAME edge objects, new Vertex objects
        with common.counting_spsolve(k, ghost):
            g.optimize(max_iter=1, tol=k.pos("tol"), verbose=False, fix_first_pose=False)
        vs = [k.r.Vertex(v.id, k.pose(shape["vertices"][p_][1], "w%d" % p_), fixed=v.fixed) for p_, v in enumerate(vs)]
        g = k.r.Graph(es, list(reversed(vs)))
        ghost.s = 0
    start = None
    if shared_start:
        # "whatever the initial guess": every free vertex starts at the same point, and the poses are built from ONE array object
        # (the pose constructors take a float64 array without copying it, so the poses share its storage)
        T0 = shape["vertices"][0][1]
        start = k.vec("start", POSE_C[T0])
        start_before = k.np.array(start)
        for p_, v in enumerate(vs):
            if p_ not in fixed_pos:
                v.pose = k.pose_cls(T0)(start)
    earlier = 0
    for marks, ffp in (history or ()):
        # an earlier call on the same Graph object with OTHER vertices marked; the call under test must solve the
        # problem for the marks in force when it is made
        for p, v in enumerate(vs):
            v.fixed = p in marks
        with common.counting_spsolve(k, ghost):
            g.optimize(max_iter=1, tol=k.pos("tol"), verbose=False, fix_first_pose=ffp)
        earlier = ghost.s
    if history:
        for p, v in enumerate(vs):
            v.fixed = p in fixed_pos
            # ... and from a NEW arbitrary initial guess (the earlier call left a state that is optimal for any marks: gauge freedom)
            v.pose = k.pose(shape["vertices"][p][1], "w%d" % p)
    kwargs = {"verbose": False, "fix_first_pose": False}
    if max_iter is not None:
        kwargs["max_iter"] = max_iter
        kwargs["tol"] = k.pos("tol")
    with common.counting_spsolve(k, ghost):
        ret = g.optimize(**kwargs)
    k.check(ghost.s >= earlier + 1, "at least one update")
    if start is not None:
        k.same(start, start_before, "the caller's array that the initial guesses were built from is not written")
    for p, v in enumerate(vs):
        k.check(v.fixed == (p in fixed_pos), "the call leaves the marks as they were", (p, v.fixed))
    # the state x1 reached after the first update is the state returned
    H1, b1, offsets = gn.assemble(dims, graphs.spec_inputs(k, shape, vs, es))
    free_idx = [offsets[p] + i for p in range(len(dims)) if p not in fixed_pos for i in range(dims[p])]
    eqs = None
    if k.mode == "sym":
        eqs = list(k.st.memo.get("solver_eqs", []))
    k.eq([b1[i] for i in free_idx], [0] * len(free_idx), "reduced gradient of the returned state is zero (normal equations solved)", using=eqs, atol=1e-7)
    chi2 = g.calc_chi2()
    k.eq(ret.final_chi2, chi2, "final_chi2 == calc_chi2() of the returned graph")
    if max_iter is None or max_iter >= 2:
        # exact arithmetic only: in floats chi2 at the optimum is reproduced up to rounding, and `chi2 <= chi2_prev` can
        # fail by one ulp; the property asks for the minimiser and its chi2, not for the flag
        if k.mode == "sym":
            k.holds(ret.converged, "a run with >= 2 iterations available reports converged")
        # (in floating point a perfectly consistent graph has chi2 ~ 1e-30 and its RELATIVE change is rounding noise,
        #  so the iteration count is stated for exact arithmetic only)
        k.check(k.mode == "num" or ret.num_iterations in (1, 2), "converged after at most two iterations", ret.num_iterations)
    # quadratic expansion around the returned state: chi2(x1 + d) = chi2(x1) + 2 b.d + d^T H d
    ds = [k.vec("q%d_" % p, dims[p]) for p in range(len(dims))]
    saved = [v.pose for v in vs]
    for p, v in enumerate(vs):
        if p not in fixed_pos:
            v.pose = v.pose + ds[p]
    chi2_moved = sum_list([e.calc_chi2() for e in es])
    for v, old in zip(vs, saved):
        v.pose = old
    lin = 0
    quad = 0
    dflat = {}
    for p in range(len(dims)):
        for i in range(dims[p]):
            dflat[offsets[p] + i] = ds[p][i] if p not in fixed_pos else 0
    for i in free_idx:
        lin = lin + b1[i] * dflat[i]
        for j in free_idx:
            quad = quad + dflat[i] * H1[i][j] * dflat[j]
    k.eq(chi2_moved, sum_list([e.calc_chi2() for e in es]) + 2 * lin + quad, "chi2(x1 + d) == chi2(x1) + 2 b(x1).d + d^T H d", rtol=1e-7)


def obligations(r, tier, seed):
    obs = []
    # ---- affinity of the residual, per edge typing
    for T in ("R2", "R3"):
        for kind in ("odometry", "landmark"):
            def affine(k, T=T, kind=kind):
                r_ = k.r
                c = POSE_C[T]
                a, b, z, off = k.pose(T, "a"), k.pose(T, "b"), k.pose(T, "z"), k.pose(T, "off")

                def mk(pa, pb):
                    vs = [r_.Vertex(0, pa), r_.Vertex(1, pb)]
                    if kind == "odometry":
                        return r_.EdgeOdometry([0, 1], k.np.eye(c), z, vs)
                    return r_.EdgeLandmark([0, 1], k.np.eye(c), z, off, 0, vs)
                e0 = mk(a, b)
                J = e0.calc_jacobians()
                da, db = k.vec("da", c), k.vec("db", c)
                e1 = mk(a + da, b + db)
                k.eq(e1.calc_error(), e0.calc_error() + k.np.dot(J[0], da) + k.np.dot(J[1], db), "error(x [+] d) == error(x) + J d")
                J1 = e1.calc_jacobians()
                k.same(J1[0], J[0], "Jacobian of vertex 0 does not depend on the poses")
                k.same(J1[1], J[1], "Jacobian of vertex 1 does not depend on the poses")
            obs.append(Ob("C04/affine-residual/%s/%s" % (kind, T), affine, funcs=FUNCS[3:]))

    for shape in linear_shapes(tier, seed):
        for max_iter in ((1, None) if tier == "quick" else (1, 2, 3, None)):
            def ob(k, shape=shape, max_iter=max_iter):
                solve(k, shape, max_iter)
            obs.append(Ob("C04/global-optimum/%s/max_iter=%s" % (shape["name"], max_iter or "default"), ob, scope="shape-bounded",
                          bound="shape " + shape["name"], funcs=FUNCS, solver="constrained-nonsingular", light=True))

    # ---- histories: the same, as a later call on a Graph object that was optimized before with other marks
    by_pattern = {}
    for s_ in linear_shapes(tier, seed):
        by_pattern.setdefault(s_["pattern"], []).append(s_)
    hist = [("cycle3", "marks-move", [({0}, False)]), ("cycle3", "marks-grow-then-shrink", [({0}, False), ({0, 2}, False)]),
            ("cycle3", "first-call-fixes-first-pose", [(set(), True)]), ("cycle3", "marks-shrink", [({0, 1}, False)]),
            ("path3", "first-pose-mark-kept", [(set(), True)]), ("landmarks", "marks-grow-then-shrink", [(set(), True), ({0, 1}, False)]),
            ("cycle3-two-fixed", "marks-grow", [({0}, False)]), ("cycle3-two-fixed", "marks-grow-from-first-pose", [(set(), True)])]
    for pattern, hname, history in hist:
        for shape in (by_pattern[pattern] if tier == "thorough" else by_pattern[pattern][:1]):
            def solve_h(k, shape=shape, history=history):
                solve(k, shape, None, history)
            obs.append(Ob("C04/global-optimum-after-earlier-calls/%s/%s" % (shape["name"], hname), solve_h, scope="shape-bounded",
                          bound="shape %s, %d earlier call(s)" % (shape["name"], len(history)), funcs=FUNCS, solver="constrained-nonsingular", light=True))

    # ---- the same, for a second graph built from the same edge objects and new vertices
    for pattern in ("path3", "landmarks"):
        for shape in by_pattern[pattern] if tier == "thorough" else by_pattern[pattern][:1]:
            def solve_r(k, shape=shape):
                solve(k, shape, None, None, reuse_edges=True)
            obs.append(Ob("C04/global-optimum-of-a-second-graph-from-the-same-edge-objects/%s" % shape["name"], solve_r, scope="shape-bounded",
                          bound="shape " + shape["name"], funcs=FUNCS, solver="constrained-nonsingular", light=True))

    # ---- the same, with all free vertices started from ONE shared array object
    for pattern in ("path3", "cycle3", "landmarks"):
        for shape in by_pattern[pattern]:
            def solve_s(k, shape=shape):
                solve(k, shape, None, None, shared_start=True)
            obs.append(Ob("C04/global-optimum-from-a-shared-initial-guess-array/%s" % shape["name"], solve_s, scope="shape-bounded",
                          bound="shape " + shape["name"], funcs=FUNCS, solver="constrained-nonsingular", light=True))

    def canary(k):
        r_ = k.r
        a, b, z = k.pose("R2", "a"), k.pose("R2", "b"), k.pose("R2", "z")
        vs = [r_.Vertex(0, a, fixed=True), r_.Vertex(1, b)]
        e = r_.EdgeOdometry([0, 1], k.spd_matrix("O", 2), z)
        g = r_.Graph([e], vs)
        k.eq(e.calc_error(), [0, 0], "the initial guess already solves the problem")
    obs.append(Ob("C04/canary/initial-guess-is-optimal", canary, tier="canary"))

    def canary2(k):
        r_ = k.r
        a, b, z = k.pose("R2", "a"), k.pose("R2", "b"), k.pose("R2", "z")
        vs = [r_.Vertex(0, a, fixed=True), r_.Vertex(1, b)]
        e = r_.EdgeOdometry([0, 1], k.spd_matrix("O", 2), z)
        g = r_.Graph([e], vs)
        ghost = common.Ghost()
        with common.counting_spsolve(k, ghost):
            g.optimize(max_iter=1, tol=k.pos("tol"), verbose=False, fix_first_pose=False)
        k.eq(vs[1].pose.to_array(), [a[0] - z[0], a[1] - z[1]], "optimum with the measurement sign flipped", using=list(k.st.memo.get("solver_eqs", [])) if k.mode == "sym" else None)
    obs.append(Ob("C04/canary/wrong-optimum", canary2, tier="canary", solver="constrained-nonsingular", light=True))
    return obs


def sum_list(xs):
    acc = 0
    for x in xs:
        acc = acc + x
    return acc


META = {
    "bounds": "R2/R3 shapes: pair, double edge, path, cycle, star, cycle with chord, landmark edges with offsets, 2-5 vertices (quick); plus seeded random connected graphs with 6-30 vertices (thorough); max_iter in {1, default} (quick) / {1,2,3,default} (thorough); numbers universal",
    "assumptions": ["H_ff is non-singular for a connected graph with a fixed vertex and positive definite information (a fact about the graph, not the code): used for 'zero right-hand side => zero update' and for uniqueness",
                    "convexity: with Omega >= 0 the proved quadratic identity and b_f = 0 make the stationary point a global minimiser (argument not mechanised)",
                    "spsolve returns a solution of the system it is given"],
}
