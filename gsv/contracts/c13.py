"""C13 -- .g2o export followed by import is lossless.

Numbers are opaque: under the symbolic interpretation a formatted symbol is a unique token and float(token) is the SAME
symbol only if the format round-trips a double (str/repr/'{}' and e/g formats with >= 17 significant digits); any other
format spec yields a FRESH symbol, so a writer that loses digits fails the identity obligations.  The real to_g2o / from_g2o
string code runs on real str objects and a real temporary file.

Per graph of the family and 1..3 export/import cycles:
  structure   same ids, pose classes, edge classes, list orders, parameter keys
  fields      every numeric field is the identical symbol (bit-exact, given the assumed float round trip), except the two
              places the statement allows: SE(2) angles (wrap: equal under the class invariant) and SE(3) edge measurements
              (normalize: same rotation)
  information reproduced from its upper triangle (symmetric information)
  chi2        chi^2 of the re-imported graph equals the original's
  refusal     content the format cannot express raises instead of being written differently: R^2/R^3 odometry, R^n -> R^n
              landmark edges, an SE(2) landmark offset other than the identity, an SE(3) landmark edge without an offset id,
              two different offsets under one parameter id
"""
import os
import tempfile

from gsv.ob import Ob
from gsv.kernel import POSE_C
from gsv.specs import lie
from gsv.contracts.c14 import load as load_file, custom_edge_type

FUNCS = ["graphslam.graph.Graph.to_g2o", "graphslam.graph.Graph.from_g2o", "graphslam.vertex.Vertex.to_g2o", "graphslam.vertex.Vertex.from_g2o",
         "graphslam.edge.edge_odometry.EdgeOdometry.to_g2o", "graphslam.edge.edge_odometry.EdgeOdometry.from_g2o",
         "graphslam.edge.edge_landmark.EdgeLandmark.to_g2o", "graphslam.edge.edge_landmark.EdgeLandmark.from_g2o",
         "graphslam.g2o_parameters.G2OParameterSE2Offset.to_g2o", "graphslam.g2o_parameters.G2OParameterSE3Offset.to_g2o",
         "graphslam.util.upper_triangular_matrix_to_full_matrix"]


def family():
    big = 2 ** 63 + 7
    return {
        "se2-odometry": {"v": [(0, "SE2"), (-5, "SE2"), (big, "SE2")], "e": [("odo", 0, -5), ("odo", big, 0), ("odo", -5, big)]},
        "se2-landmarks": {"v": [(3, "SE2"), (1, "R2"), (2, "SE2"), (9, "R2")], "e": [("odo", 3, 2), ("lmk", 3, 1, "identity"), ("lmk", 2, 9, "identity"), ("lmk", 2, 1, "identity")]},
        # one SE(3) odometry edge per graph: each one multiplies the number of control paths (normalize sign x error-sign tie-break)
        "se3-odometry": {"v": [(0, "SE3"), (1, "SE3")], "e": [("odo", 1, 0)]},
        "se3-landmarks-params-loaded": {"v": [(4, "SE3"), (-1, "R3"), (6, "SE3")], "e": [("odo", 4, 6), ("lmk", 4, -1, 12), ("lmk", 6, -1, 3)], "params": "registered"},
        "se3-landmarks-programmatic": {"v": [(4, "SE3"), (-1, "R3"), (6, "R3")], "e": [("lmk", 4, -1, 12), ("lmk", 4, 6, 12), ("lmk", 4, 6, 0)], "params": "none"},
        "mixed": {"v": [(0, "SE2"), (1, "SE3"), (2, "R2"), (3, "R3"), (4, "SE3"), (5, "SE2")],
                  "e": [("odo", 5, 0), ("lmk", 0, 2, "identity"), ("lmk", 1, 3, 8), ("lmk", 4, 3, 0)], "params": "registered"},
        "vertices-only": {"v": [(1, "R2"), (2, "R3"), (3, "SE2"), (4, "SE3")], "e": []},
        # the same measurement recorded twice: two edges whose lines in the file are textually identical ("=j": the numbers of edge j)
        "duplicate-edges": {"v": [(0, "SE2"), (1, "SE2"), (2, "R2"), (3, "SE3"), (4, "R3")],
                            "e": [("odo", 0, 1), ("odo", 0, 1, "=0"), ("lmk", 1, 2, "identity"), ("lmk", 1, 2, "identity", "=2"), ("lmk", 3, 4, 6), ("lmk", 3, 4, 6, "=4")]},
    }


def build(k, spec, name):
    r = k.r
    vs = []
    types = {}
    for i, (vid, T) in enumerate(spec["v"]):
        vs.append(r.Vertex(vid, k.pose(T, "%s.v%d" % (name, i))))
        types[vid] = T
    es = []
    offsets = {}
    for j, e in enumerate(spec["e"]):
        if isinstance(e[-1], str) and e[-1].startswith("="):
            j = int(e[-1][1:])          # same symbol names as that edge: identical numbers, distinct objects
            e = e[:-1]
        if e[0] == "odo":
            T = types[e[1]]
            es.append(r.EdgeOdometry([e[1], e[2]], k.spd_matrix("%s.O%d" % (name, j), POSE_C[T]), k.pose(T, "%s.z%d" % (name, j))))
        else:
            TP, TL = types[e[1]], types[e[2]]
            if e[3] == "identity":
                off, oid = r.PoseSE2.identity(), 0
            else:
                oid = e[3]
                if oid not in offsets:
                    offsets[oid] = k.pose(TP, "%s.off%d" % (name, oid))
                off = offsets[oid]
            es.append(r.EdgeLandmark([e[1], e[2]], k.spd_matrix("%s.O%d" % (name, j), POSE_C[TL]), k.pose(TL, "%s.z%d" % (name, j)), off, oid))
    g = r.Graph(es, vs)
    if spec.get("params") == "registered":
        g._g2o_params = {("PARAMS_SE3OFFSET", oid): r.g2o_parameters.G2OParameterSE3Offset(("PARAMS_SE3OFFSET", oid), off) for oid, off in offsets.items()}
    return g


def export_only(k, g):
    fd, path = tempfile.mkstemp(prefix="gsv-c13-", suffix=".g2o")
    os.close(fd)
    try:
        g.to_g2o(path)
    finally:
        try:
            os.unlink(path)
        except OSError:
            pass


def roundtrip(k, g):
    fd, path = tempfile.mkstemp(prefix="gsv-c13-", suffix=".g2o")
    os.close(fd)
    try:
        g.to_g2o(path)
        g2, warnings_ = load_file(k, path)
    finally:
        try:
            os.unlink(path)
        except OSError:
            pass
    return g2, warnings_


def same_pose_fields(k, T, a, b, label, normalised=False):
    np = k.np
    k.check(type(a) is type(b), label + ": class", (type(a).__name__, type(b).__name__))
    if type(a) is not type(b):
        return
    if T == "SE2":
        k.same([a[0], a[1]], [b[0], b[1]], label + ": translation identical")
        k.eq(a[2], b[2], label + ": angle equal (re-wrapping a wrapped angle)")
    elif T == "SE3" and normalised:
        k.same([a[i] for i in range(3)], [b[i] for i in range(3)], label + ": translation identical")
        k.eq(lie.rotmat(np, lie.quat(a)), lie.rotmat(np, lie.quat(b)), label + ": same rotation after normalisation")
        k.eq(lie.norm2(lie.quat(a)), 1, label + ": unit quaternion")
    else:
        k.same(a.to_array(), b.to_array(), label + ": fields identical")


def compare(k, g0, g1, label):
    r = k.r
    k.check(len(g0._vertices) == len(g1._vertices) and len(g0._edges) == len(g1._edges), label + "same number of vertices and edges",
            (len(g1._vertices), len(g1._edges)))
    if len(g0._vertices) != len(g1._vertices) or len(g0._edges) != len(g1._edges):
        return
    for i, (a, b) in enumerate(zip(g0._vertices, g1._vertices)):
        k.check(a.id == b.id, label + "vertex %d: id" % i, (a.id, b.id))
        T = type_of(k, a.pose)
        same_pose_fields(k, T, b.pose, a.pose, label + "vertex %d" % i)
    heavy = k.mode == "sym" and any(isinstance(e, r.EdgeOdometry) and isinstance(e.estimate, r.PoseSE3) for e in g0._edges)
    for j, (a, b) in enumerate(zip(g0._edges, g1._edges)):
        lab = label + "edge %d" % j
        k.check(type(a) is type(b) and list(a.vertex_ids) == list(b.vertex_ids), lab + ": class and ids", (type(b).__name__, list(b.vertex_ids)))
        if type(a) is not type(b):
            continue
        k.check(tuple(a.information.shape) == tuple(b.information.shape), lab + ": information shape")
        k.same(b.information, a.information, lab + ": information identical")
        T = type_of(k, a.estimate)
        same_pose_fields(k, T, b.estimate, a.estimate, lab + ": measurement", normalised=(T == "SE3" and isinstance(a, r.EdgeOdometry)))
        if isinstance(a, r.EdgeLandmark):
            TO = type_of(k, a.offset)
            same_pose_fields(k, TO, b.offset, a.offset, lab + ": offset")
            if TO == "SE3":
                k.check(a.offset_id == b.offset_id, lab + ": offset id", (a.offset_id, b.offset_id))
        k.eq(b.calc_error(), a.calc_error(), lab + ": error vector equal")
        if not heavy:
            k.eq(b.calc_chi2(), a.calc_chi2(), lab + ": chi2 equal")
    if not heavy:
        k.eq(g1.calc_chi2(), g0.calc_chi2(), label + "chi2 of the graph equal")
    else:
        k.note("chi2", "SE(3) odometry edges: chi2 equality follows from equal error vectors and identical information (chi2 = e'Omega e, C02); "
                       "the direct comparison of the 10^4-term polynomials is left to C08's thorough tier")


def type_of(k, pose):
    r = k.r
    for T, cls in (("SE2", r.PoseSE2), ("SE3", r.PoseSE3), ("R2", r.PoseR2), ("R3", r.PoseR3)):
        if type(pose) is cls:
            return T
    return None


def obligations(r, tier, seed):
    obs = []
    for name, spec in family().items():
        for cycles in ((1, 2) if tier == "quick" else (1, 2, 3)):
            if tier == "quick" and cycles > 1 and name not in ("mixed", "se3-landmarks-programmatic"):
                continue
            def rt(k, name=name, spec=spec, cycles=cycles):
                g0 = build(k, spec, "g")
                g = g0
                for c in range(cycles):
                    out = k.returns(lambda g=g: roundtrip(k, g), "cycle %d: export and re-import succeed" % (c + 1))
                    if out is None:
                        return
                    g, warnings_ = out
                    k.check(not warnings_, "cycle %d: every written line is read back without a warning" % (c + 1), warnings_[:2])
                compare(k, g0, g, "after %d cycle(s): " % cycles)
            obs.append(Ob("C13/roundtrip/%s/cycles=%d" % (name, cycles), rt, scope="shape-bounded", bound="graph %s, %d cycles" % (name, cycles),
                          funcs=FUNCS, light=True, max_paths=256, eager=True))

    # ---- content the format cannot express is refused
    def refuse_rn(k):
        r_ = k.r
        for T in ("R2", "R3"):
            vs = [r_.Vertex(0, k.pose(T, T + ".a")), r_.Vertex(1, k.pose(T, T + ".b"))]
            g = r_.Graph([r_.EdgeOdometry([0, 1], k.spd_matrix(T + ".O", POSE_C[T]), k.pose(T, T + ".z"))], vs)
            k.raises(lambda g=g: export_only(k, g), "%s odometry edge cannot be written: the export is refused" % T)
            g2 = r_.Graph([r_.EdgeLandmark([0, 1], k.spd_matrix(T + ".O2", POSE_C[T]), k.pose(T, T + ".z2"), k.pose(T, T + ".off"), 0)], vs)
            k.raises(lambda g2=g2: export_only(k, g2), "%s -> %s landmark edge cannot be written: the export is refused" % (T, T))
    obs.append(Ob("C13/refusal/Rn-edges", refuse_rn, funcs=FUNCS, light=True))

    def refuse_se2_offset(k):
        r_ = k.r
        vs = [r_.Vertex(0, k.pose("SE2", "p")), r_.Vertex(1, k.pose("R2", "l"))]
        off = k.pose("SE2", "off")
        np = k.np
        # the offset is NOT the identity (somewhere): the line format has no room for it
        k.assume((off[0] * off[0] + off[1] * off[1] > 0) | (off[2] > 0) | (off[2] < 0), "offset is not the identity (its stored angle lies in [-pi, pi))")
        g = r_.Graph([r_.EdgeLandmark([0, 1], k.spd_matrix("O", 2), k.pose("R2", "z"), off, 0)], vs)
        k.raises(lambda: export_only(k, g), "SE(2) landmark edge with a non-identity offset: the export is refused, not written without it")
    obs.append(Ob("C13/refusal/SE2-landmark-offset", refuse_se2_offset, funcs=FUNCS, light=True))

    def refuse_no_id(k):
        r_ = k.r
        vs = [r_.Vertex(0, k.pose("SE3", "p")), r_.Vertex(1, k.pose("R3", "l"))]
        g = r_.Graph([r_.EdgeLandmark([0, 1], k.spd_matrix("O", 3), k.pose("R3", "z"), k.pose("SE3", "off"), None)], vs)
        k.raises(lambda: export_only(k, g), "SE(3) landmark edge without an offset id: the export is refused")
    obs.append(Ob("C13/refusal/SE3-landmark-without-offset-id", refuse_no_id, funcs=FUNCS, light=True))

    def refuse_conflict(k):
        r_ = k.r
        vs = [r_.Vertex(0, k.pose("SE3", "p")), r_.Vertex(1, k.pose("R3", "l"))]
        o1, o2 = k.pose("SE3", "off1"), k.pose("SE3", "off2")
        k.assume((o1[0] - o2[0]) * (o1[0] - o2[0]) > 0, "the two offsets differ")
        g = r_.Graph([r_.EdgeLandmark([0, 1], k.spd_matrix("O", 3), k.pose("R3", "z"), o1, 4),
                      r_.EdgeLandmark([0, 1], k.spd_matrix("O2", 3), k.pose("R3", "z2"), o2, 4)], vs)
        k.raises(lambda: export_only(k, g), "two different offsets under one parameter id: the export is refused")
    obs.append(Ob("C13/refusal/conflicting-offsets-for-one-id", refuse_conflict, funcs=FUNCS, light=True))

    # ---- export returns  ==>  the file holds THIS graph.  A graph that was read from a file remembers the file's parameters; when
    #      its landmark edges are then given another offset under the same id, the export either refuses or writes the offset the
    #      edges use (re-import yields the exported graph) -- never the remembered one.
    for how in ("loaded-then-offset-replaced", "registered-parameter-differs"):
        def stale(k, how=how):
            from gsv.engine_common import is_control_exception
            r_ = k.r
            vs = [r_.Vertex(0, k.pose("SE3", "p")), r_.Vertex(1, k.pose("R3", "l")), r_.Vertex(2, k.pose("R3", "m"))]
            o_old, o_new = k.pose("SE3", "off_old"), k.pose("SE3", "off_new")
            k.assume((o_old[0] - o_new[0]) * (o_old[0] - o_new[0]) > 0, "the new offset differs from the one in the file")
            mk = lambda off: [r_.EdgeLandmark([0, 1], k.spd_matrix("O", 3), k.pose("R3", "z"), off, 7),
                              r_.EdgeLandmark([0, 2], k.spd_matrix("O2", 3), k.pose("R3", "z2"), off, 7)]
            if how == "loaded-then-offset-replaced":
                out = k.returns(lambda: roundtrip(k, r_.Graph(mk(o_old), vs)), "a consistent graph is written and read back")
                if out is None:
                    return
                g = out[0]
                for e in g._edges:
                    e.offset = o_new
            else:
                g = r_.Graph(mk(o_new), vs)
                g._g2o_params = {("PARAMS_SE3OFFSET", 7): r_.g2o_parameters.G2OParameterSE3Offset(("PARAMS_SE3OFFSET", 7), o_old)}
            try:
                g2, _ = roundtrip(k, g)
            except Exception as e:      # noqa: BLE001
                if is_control_exception(e):
                    raise
                k.check(isinstance(e, ValueError), "the export is refused with a ValueError", type(e).__name__)
                return
            compare(k, g, g2, "the export was accepted, so the file holds the exported graph: ")
        obs.append(Ob("C13/accepted-export-holds-this-graph/%s" % how, stale, funcs=FUNCS, light=True, eager=True, max_paths=256))

    # ---- internal: writers use round-tripping number formats; packing/unpacking of symmetric information
    for n in (2, 3, 6):
        def tri(k, n=n):
            M = k.sym_matrix("M", n)
            packed = M[k.np.triu_indices(n, 0)]
            back = k.r.util.upper_triangular_matrix_to_full_matrix(packed, n)
            k.same(back, M, "upper_triangular_matrix_to_full_matrix(M[triu]) == M for symmetric M")
        obs.append(Ob("C13/internal/information-packing/n=%d" % n, tri, tier="internal", funcs=["graphslam.util.upper_triangular_matrix_to_full_matrix"]))

    # ---- internal: each writer/parser pair on its own (per-function contracts; the top-level obligations above go through Graph)
    def pair_vertex(k):
        r_ = k.r
        k.install_tokens()
        for T in ("R2", "R3", "SE2", "SE3"):
            v = r_.Vertex(-12, k.pose(T, "v" + T))
            line = v.to_g2o()
            k.check(isinstance(line, str) and line.endswith("\n") and line.count("\n") == 1, "%s: one line ending in a newline" % T)
            w = r_.Vertex.from_g2o(line)
            k.check(w is not None and w.id == -12 and type(w.pose) is type(v.pose), "%s: Vertex.from_g2o(to_g2o()) gives the same id and class" % T)
            same_pose_fields(k, T, w.pose, v.pose, "%s vertex" % T)
            k.check(all(r_.Vertex.from_g2o(l) is None for l in ("", "EDGE_SE2 1 2 3", "VERTEX_SE2X 1 2 3 4")), "other lines give None")
    obs.append(Ob("C13/internal/Vertex.to_g2o-from_g2o", pair_vertex, tier="internal", funcs=FUNCS[2:4], light=True))

    def pair_params(k):
        r_ = k.r
        k.install_tokens()
        P2, P3 = r_.g2o_parameters.G2OParameterSE2Offset, r_.g2o_parameters.G2OParameterSE3Offset
        for cls, T, tag in ((P2, "SE2", "PARAMS_SE2OFFSET"), (P3, "SE3", "PARAMS_SE3OFFSET")):
            p = cls((tag, 4), k.pose(T, "p" + T))
            q = cls.from_g2o(p.to_g2o())
            k.check(q is not None and q.key == (tag, 4), "%s: key preserved" % tag)
            same_pose_fields(k, T, q.value, p.value, tag)
            k.check(cls.from_g2o("VERTEX_SE2 1 2 3 4") is None, "%s: other lines give None" % tag)
    obs.append(Ob("C13/internal/G2OParameter.to_g2o-from_g2o", pair_params, tier="internal", funcs=FUNCS[8:10], light=True))

    def pair_edges(k):
        r_ = k.r
        k.install_tokens()
        for T in ("SE2",):
            vs = [r_.Vertex(1, k.pose(T, "a")), r_.Vertex(2, k.pose(T, "b"))]
            e = r_.EdgeOdometry([1, 2], k.spd_matrix("O" + T, POSE_C[T]), k.pose(T, "z"), vs)
            f = r_.EdgeOdometry.from_g2o(e.to_g2o())
            k.check(f is not None and list(f.vertex_ids) == [1, 2] and f.vertices is None, "odometry %s: ids preserved, not yet bound" % T)
            k.same(f.information, e.information, "odometry %s: information" % T)
            same_pose_fields(k, T, f.estimate, e.estimate, "odometry %s: measurement" % T)
        vs = [r_.Vertex(1, k.pose("SE2", "a")), r_.Vertex(2, k.pose("R2", "l"))]
        e = r_.EdgeLandmark([1, 2], k.spd_matrix("OL", 2), k.pose("R2", "zl"), r_.PoseSE2.identity(), 0, vs)
        f = r_.EdgeLandmark.from_g2o(e.to_g2o(), {})
        k.check(f is not None and list(f.vertex_ids) == [1, 2], "landmark SE2: ids preserved")
        k.same(f.information, e.information, "landmark SE2: information")
        k.same(f.estimate.to_array(), e.estimate.to_array(), "landmark SE2: measurement")
        vs = [r_.Vertex(1, k.pose("SE3", "c")), r_.Vertex(2, k.pose("R3", "m"))]
        off = k.pose("SE3", "off")
        e = r_.EdgeLandmark([1, 2], k.spd_matrix("OM", 3), k.pose("R3", "zm"), off, 9, vs)
        par = r_.g2o_parameters.G2OParameterSE3Offset(("PARAMS_SE3OFFSET", 9), off)
        f = r_.EdgeLandmark.from_g2o(e.to_g2o(), {par.key: par})
        k.check(f is not None and f.offset is off and f.offset_id == 9, "landmark SE3: offset resolved through the parameter id")
        k.same(f.information, e.information, "landmark SE3: information")
        k.same(f.estimate.to_array(), e.estimate.to_array(), "landmark SE3: measurement")
    obs.append(Ob("C13/internal/Edge.to_g2o-from_g2o", pair_edges, tier="internal", funcs=FUNCS[4:8], light=True))

    # canaries
    def canary(k):
        g0 = build(k, family()["se2-odometry"], "g")
        g1, _ = roundtrip(k, g0)
        a, b = g0._vertices[0], g1._vertices[1]
        k.same(b.pose.to_array(), a.pose.to_array(), "vertex order shifted")
    obs.append(Ob("C13/canary/vertex-order-shifted", canary, tier="canary", light=True))

    def canary_lossy(k):
        x = k.real("x")
        txt = "{:.9g}".format(x)
        if k.mode == "sym":
            from gsv.engine import tokens
            back = tokens.sym_float(txt)
        else:
            back = float(txt)
        k.same(back, x, "a 9-digit format round-trips")
    obs.append(Ob("C13/canary/lossy-format-roundtrips", canary_lossy, tier="canary", numeric=False))
    return obs


META = {
    "bounds": "7 graphs covering every vertex and edge type, offsets with rotation, negative and > 2^63 ids, full symmetric information, parameters registered in / absent from _g2o_params; 1-2 (quick) / 1-3 (thorough) export/import cycles; numbers universal (opaque tokens)",
    "assumptions": ["CPython/numpy format -> float round-trips every finite double exactly (shortest-repr guarantee); the text of a number contains no blank; int(str(i)) == i",
                    "values spanning 1e-300..1e300 are a floating-point statement covered only through the assumed float round trip",
                    "file I/O executed natively (a real temporary file)"],
}
