"""C09 -- pose composition is the rigid-motion group.

Top-level post-conditions on the real operators of the four pose classes against the independent
matrix / Hamilton-product model in gsv.specs.lie.  Proof for all inputs (every unit quaternion,
every angle, every translation); nothing is enumerated except the four pose types.
"""
import operator

from gsv.ob import Ob, TYPES
from gsv.kernel import POSE_C, POINT_OF
from gsv.specs import lie

FUNCS = {
    "R2": "graphslam.pose.r2.PoseR2", "R3": "graphslam.pose.r3.PoseR3",
    "SE2": "graphslam.pose.se2.PoseSE2", "SE3": "graphslam.pose.se3.PoseSE3",
}


def pose_eq(k, T, got, M_want, label, q_want=None):
    """got (a repository pose) represents the rigid motion M_want (and, for SE3, the quaternion q_want)."""
    k.check(type(got) is k.pose_cls(T), label + "/class")
    k.eq(lie.hom(k.np, T, got), M_want, label + "/hom")
    if T == "SE3" and q_want is not None:
        k.eq(lie.quat(got), q_want, label + "/quat")


def spec_pose_of_compact(k, T, d):
    """(homogeneous matrix, quaternion or None) of the pose whose compact form is d -- the specification of boxplus."""
    np = k.np
    if T in ("R2", "R3"):
        return lie.hom_R(np, list(d)), None
    if T == "SE2":
        return lie.hom_SE2(np, d[0], d[1], d[2]), None
    w = np.sqrt(1 - (d[3] * d[3] + d[4] * d[4] + d[5] * d[5]))
    q = [d[3], d[4], d[5], w]
    return lie.hom_SE3(np, [d[0], d[1], d[2]], q), q


def obligations(r, tier, seed):
    obs = []
    for T in TYPES:
        cls = FUNCS[T]
        n = lie.homdim(T)

        def compose(k, T=T):
            a, b = k.pose(T, "a"), k.pose(T, "b")
            qw = lie.hamilton(lie.quat(a), lie.quat(b)) if T == "SE3" else None
            pose_eq(k, T, a + b, k.np.dot(lie.hom(k.np, T, a), lie.hom(k.np, T, b)), "oplus", qw)
        obs.append(Ob("C09/%s/oplus-is-matrix-product" % T, compose, funcs=[cls + ".__add__"]))

        if T in ("SE2", "SE3"):
            def tomat(k, T=T):
                a = k.pose(T, "a")
                k.eq(a.to_matrix(), lie.hom(k.np, T, a), "to_matrix")
            obs.append(Ob("C09/%s/to_matrix" % T, tomat, funcs=[cls + ".to_matrix"]))

        def ominus(k, T=T):
            a, b = k.pose(T, "a"), k.pose(T, "b")
            d = a - b
            # b * (a - b) == a   (cross-multiplied: the spec needs no matrix inverse)
            k.check(type(d) is k.pose_cls(T), "ominus/class")
            k.eq(k.np.dot(lie.hom(k.np, T, b), lie.hom(k.np, T, d)), lie.hom(k.np, T, a), "ominus/b*(a-b)=a")
            e = b.inverse + a
            k.eq(lie.hom(k.np, T, d), lie.hom(k.np, T, e), "ominus/equals-inverse-oplus/hom")
            if T == "SE3":
                k.eq(lie.quat(d), lie.hamilton(lie.conj(lie.quat(b)), lie.quat(a)), "ominus/quat")
                k.eq(lie.quat(d), lie.quat(e), "ominus/equals-inverse-oplus/quat")
            if T in ("R2", "R3"):
                k.eq(d.to_array(), e.to_array(), "ominus/equals-inverse-oplus/array")
        obs.append(Ob("C09/%s/ominus-is-inverse-oplus" % T, ominus, funcs=[cls + ".__sub__", cls + ".inverse"]))

        def inverse(k, T=T, n=n):
            a = k.pose(T, "a")
            I = lie.identity_matrix(k.np, n)
            ai = a.inverse
            k.check(type(ai) is k.pose_cls(T), "inverse/class")
            k.eq(k.np.dot(lie.hom(k.np, T, a), lie.hom(k.np, T, ai)), I, "inverse/right")
            k.eq(k.np.dot(lie.hom(k.np, T, ai), lie.hom(k.np, T, a)), I, "inverse/left")
            pose_eq(k, T, a + ai, I, "a+inv(a)", [0, 0, 0, 1] if T == "SE3" else None)
            pose_eq(k, T, ai + a, I, "inv(a)+a", [0, 0, 0, 1] if T == "SE3" else None)
            if T == "SE3":
                k.eq(lie.quat(ai), lie.conj(lie.quat(a)), "inverse/quat-is-conjugate")
        obs.append(Ob("C09/%s/inverse-two-sided" % T, inverse, funcs=[cls + ".inverse", cls + ".__add__"]))

        def ident(k, T=T, n=n):
            a = k.pose(T, "a")
            e = k.pose_cls(T).identity()
            k.eq(lie.hom(k.np, T, e), lie.identity_matrix(k.np, n), "identity/hom")
            pose_eq(k, T, e + a, lie.hom(k.np, T, a), "e+a", lie.quat(a) if T == "SE3" else None)
            pose_eq(k, T, a + e, lie.hom(k.np, T, a), "a+e", lie.quat(a) if T == "SE3" else None)
        obs.append(Ob("C09/%s/identity-two-sided" % T, ident, funcs=[cls + ".identity", cls + ".__add__"]))

        def assoc(k, T=T):
            a, b, c = k.pose(T, "a"), k.pose(T, "b"), k.pose(T, "c")
            l, rr = (a + b) + c, a + (b + c)
            k.eq(lie.hom(k.np, T, l), lie.hom(k.np, T, rr), "assoc/hom")
            if T == "SE3":
                k.eq(lie.quat(l), lie.quat(rr), "assoc/quat")
            if T in ("R2", "R3"):
                k.eq(l.to_array(), rr.to_array(), "assoc/array")
        obs.append(Ob("C09/%s/associative" % T, assoc, funcs=[cls + ".__add__"]))

        PT = POINT_OF[T]

        def action(k, T=T, PT=PT):
            a = k.pose(T, "a")
            x = k.reals("x", 2 if PT == "R2" else 3)
            pt = k.pose_cls(PT)(list(x))
            res = a + pt
            k.check(type(res) is k.pose_cls(PT), "action/class")
            k.eq([res[i] for i in range(len(x))], lie.act(k.np, T, a, x), "action/point")
        obs.append(Ob("C09/%s/point-action" % T, action, funcs=[cls + ".__add__"]))

        if T in ("SE2", "SE3"):
            def action_arr(k, T=T, PT=PT):
                a = k.pose(T, "a")
                x = k.reals("x", 2 if PT == "R2" else 3)
                res = a + k.np.array(list(x))
                k.eq([res[i] for i in range(len(x))], lie.act(k.np, T, a, x), "action/bare-array")
            obs.append(Ob("C09/%s/point-action-bare-array" % T, action_arr, funcs=[cls + ".__add__"]))

        def boxplus(k, T=T):
            a = k.pose(T, "a")
            c = POSE_C[T]
            d = k.reals("d", c)
            if T == "SE3":
                k.assume(d[3] * d[3] + d[4] * d[4] + d[5] * d[5] <= 1, "rotational increment of norm <= 1")
            res = a + k.np.array(list(d))
            M, q = spec_pose_of_compact(k, T, d)
            qw = lie.hamilton(lie.quat(a), q) if T == "SE3" else None
            pose_eq(k, T, res, k.np.dot(lie.hom(k.np, T, a), M), "boxplus", qw)
        obs.append(Ob("C09/%s/boxplus-is-oplus-of-compact" % T, boxplus, funcs=[cls + ".__add__"]))

        def iadd(k, T=T):
            a, b = k.pose(T, "a"), k.pose(T, "b")
            before_a, before_b = a.to_array(), b.to_array()
            want = a + b
            got = operator.iadd(a, b)
            k.check(type(got) is k.pose_cls(T), "iadd/class")
            k.same(got.to_array(), want.to_array(), "iadd/equals-oplus")
            k.same(a.to_array(), before_a, "iadd/left-operand-untouched")
            k.same(b.to_array(), before_b, "iadd/right-operand-untouched")
            c = POSE_C[T]
            d = k.reals("d", c)
            if T == "SE3":
                k.assume(d[3] * d[3] + d[4] * d[4] + d[5] * d[5] <= 1, "rotational increment of norm <= 1")
            darr = k.np.array(list(d))
            want2 = a + darr
            got2 = operator.iadd(a, darr)
            k.same(got2.to_array(), want2.to_array(), "iadd-boxplus/equals-boxplus")
            k.same(a.to_array(), before_a, "iadd-boxplus/operand-untouched")
        obs.append(Ob("C09/%s/iadd-delegates" % T, iadd, funcs=["graphslam.pose.base_pose.BasePose.__iadd__"]))

    # ---- identity() is the identity on EVERY call: what an earlier caller did to the object it was given must not matter
    for T in TYPES:
        def fresh_identity(k, T=T):
            from gsv.kernel import POSE_N
            cls = k.pose_cls(T)
            e1 = cls.identity()
            try:
                e1[...] = 5                  # the caller owns what it was given (a read-only constant would refuse: equally fine)
            except ValueError:
                pass
            e2 = cls.identity()
            a = k.pose(T, "a")
            qa = lie.quat(a) if T == "SE3" else None
            pose_eq(k, T, a + e2, lie.hom(k.np, T, a), "a (+) identity() == a, after an earlier identity() object was overwritten", qa)
            pose_eq(k, T, e2 + a, lie.hom(k.np, T, a), "identity() (+) a == a, after an earlier identity() object was overwritten", qa)
            e3 = cls.identity()
            try:
                e3 -= k.np.array([1.0] * POSE_N[T])      # ndarray in-place operators other than += act in place
            except ValueError:
                pass
            pose_eq(k, T, a + cls.identity(), lie.hom(k.np, T, a), "a (+) identity() == a, after an in-place operator on an earlier identity() object", qa)
        obs.append(Ob("C09/%s/identity-is-fresh-on-every-call" % T, fresh_identity, funcs=[FUNCS[T] + ".identity"]))

    # ---- every operation is a function of the values the operands hold when it is called: poses are mutable arrays, so all
    #      operations are queried in a first concrete state, the operands are overwritten in place, and all are queried again
    for T in TYPES:
        def current_values(k, T=T):
            from gsv.contracts.c01 import FIRST_STATE
            from gsv.kernel import POSE_N
            PT = POINT_OF[T]
            a1, b1 = k.pose_from_raw(T, FIRST_STATE[T][0]), k.pose_from_raw(T, FIRST_STATE[T][1])
            a2, b2 = k.pose(T, "a"), k.pose(T, "b")
            pt = k.pose_cls(PT)(list(k.reals("x", POSE_N[PT])))
            d = k.np.array([0.125, -0.25, 0.0625, 0.25, -0.125, 0.5][:POSE_C[T]])

            def ops(a, b):
                out = [("to_array", a.to_array()), ("to_compact", a.to_compact()), ("position", a.position), ("orientation", a.orientation),
                       ("inverse", a.inverse.to_array()), ("oplus", (a + b).to_array()), ("ominus", (a - b).to_array()),
                       ("point action", (a + pt).to_array()), ("boxplus", (a + d).to_array()), ("copy", a.copy().to_array()),
                       ("other.oplus(self)", (b + a).to_array())]
                if hasattr(a, "to_matrix"):
                    out.append(("to_matrix", a.to_matrix()))
                return out
            first = ops(a1, b1)
            a1[:] = a2.to_array()
            b1[:] = b2.to_array()
            again = ops(a1, b1)
            ref = ops(k.pose_from_raw(T, [a2[i] for i in range(POSE_N[T])]), k.pose_from_raw(T, [b2[i] for i in range(POSE_N[T])]))
            k.check(len(first) == len(again) == len(ref), "same operations queried")
            for (m, got), (_, want) in zip(again, ref):
                k.eq(got, want, "%s after the operands were overwritten in place == the result for fresh poses with the new values" % m)
        obs.append(Ob("C09/%s/operations-depend-on-the-current-values-only" % T, current_values, funcs=[FUNCS[T]]))

    # canaries: wrong specs that must be refuted
    def canary_order(k):
        a, b = k.pose("SE3", "a"), k.pose("SE3", "b")
        k.eq(lie.hom(k.np, "SE3", a + b), k.np.dot(lie.hom(k.np, "SE3", b), lie.hom(k.np, "SE3", a)), "oplus-reversed")
    obs.append(Ob("C09/canary/SE3-oplus-reversed-order", canary_order, tier="canary"))

    def canary_se2(k):
        a, b = k.pose("SE2", "a"), k.pose("SE2", "b")
        d = a - b
        k.eq(k.np.dot(lie.hom(k.np, "SE2", a), lie.hom(k.np, "SE2", d)), lie.hom(k.np, "SE2", b), "ominus-swapped")
    obs.append(Ob("C09/canary/SE2-ominus-swapped", canary_se2, tier="canary"))
    return obs
