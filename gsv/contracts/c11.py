"""C11 -- manifold invariants: SE(2) angle range, unit quaternions (real arithmetic; rounding is not modelled).

  neg_pi_to_pi(a)       -pi <= r <= pi  and  r congruent to a modulo 2 pi (stated as cos r = cos a, sin r = sin a, so any
                        implementation of the wrap passes, whatever its half-open convention)
  class invariant SE2   every PoseSE2 produced by the constructor, identity, copy, inverse, +, -, box-plus, from_matrix
                        has its angle in [-pi, pi] and congruent to the exact angle
  SE3                   |quat(result)|^2 == 1 for +, box-plus (both branches of the clamp), -, inverse, copy, identity
                        from unit operands; normalize() of any non-zero quaternion: unit norm, w >= 0, same rotation
  loop invariant        one optimizer iteration with an ARBITRARY solver result keeps every SE(3) vertex unit and every
                        SE(2) angle in range: base case = precondition, step proved for arbitrary state, hence any number
                        of iterations and any graph.
"""
import operator

from gsv.ob import Ob
from gsv.specs import lie
from gsv.contracts import common

SE2 = "graphslam.pose.se2.PoseSE2"
SE3 = "graphslam.pose.se3.PoseSE3"


def in_range(k, th, label):
    pi = k.np.pi
    k.holds((th >= -pi) & (th <= pi), label + "/in [-pi, pi]")


def congruent(k, th, exact, label):
    np = k.np
    k.eq([np.cos(th), np.sin(th)], [np.cos(exact), np.sin(exact)], label + "/congruent mod 2 pi")


def obligations(r, tier, seed):
    obs = []

    def wrap(k):
        a = k.angle("a")
        res = k.r.util.neg_pi_to_pi(a)
        in_range(k, res, "wrap")
        congruent(k, res, a, "wrap")
        # idempotent on its range (over the reals; the IEEE corner is F6 in DESIGN.md)
        again = k.r.util.neg_pi_to_pi(res)
        congruent(k, again, a, "wrap-twice")
        in_range(k, again, "wrap-twice")
    obs.append(Ob("C11/util.neg_pi_to_pi", wrap, funcs=["graphslam.util.neg_pi_to_pi"]))

    def se2_ops(k):
        P = k.r.PoseSE2
        a, b = k.pose("SE2", "a"), k.pose("SE2", "b")
        tha, thb = a[2], b[2]
        raw = k.angle("raw")
        c = P([k.real("x"), k.real("y")], raw)
        in_range(k, c[2], "constructor")
        congruent(k, c[2], raw, "constructor")
        e = P.identity()
        in_range(k, e[2], "identity")
        congruent(k, e[2], 0, "identity")
        cp = a.copy()
        in_range(k, cp[2], "copy")
        congruent(k, cp[2], tha, "copy")
        k.eq([cp[0], cp[1]], [a[0], a[1]], "copy/position")
        inv = a.inverse
        in_range(k, inv[2], "inverse")
        congruent(k, inv[2], -tha, "inverse")
        s = a + b
        in_range(k, s[2], "oplus")
        congruent(k, s[2], tha + thb, "oplus")
        d = a - b
        in_range(k, d[2], "ominus")
        congruent(k, d[2], tha - thb, "ominus")
        dl = k.reals("d", 3)
        bp = a + k.np.array(dl)
        in_range(k, bp[2], "boxplus")
        congruent(k, bp[2], tha + dl[2], "boxplus")
        ia = operator.iadd(a, k.np.array(dl))
        in_range(k, ia[2], "iadd-boxplus")
        congruent(k, ia[2], tha + dl[2], "iadd-boxplus")
    obs.append(Ob("C11/PoseSE2/angle-range-and-congruence", se2_ops,
                  funcs=[SE2 + ".__new__", SE2 + ".identity", SE2 + ".copy", SE2 + ".inverse", SE2 + ".__add__", SE2 + ".__sub__"]))

    def se2_from_matrix(k):
        a = k.pose("SE2", "a")
        M = a.to_matrix()
        back = k.r.PoseSE2.from_matrix(M)
        in_range(k, back[2], "from_matrix")
        k.eq(lie.hom(k.np, "SE2", back), M, "from_matrix(to_matrix(a)) is the same motion")
    obs.append(Ob("C11/PoseSE2/from_matrix", se2_from_matrix, funcs=[SE2 + ".from_matrix", SE2 + ".to_matrix"]))

    def se3_ops(k):
        a, b = k.pose("SE3", "a"), k.pose("SE3", "b")
        one = 1
        k.eq(lie.norm2(lie.quat(a + b)), one, "oplus/unit")
        k.eq(lie.norm2(lie.quat(a - b)), one, "ominus/unit")
        k.eq(lie.norm2(lie.quat(a.inverse)), one, "inverse/unit")
        k.eq(lie.norm2(lie.quat(a.copy())), one, "copy/unit")
        k.eq(a.copy().to_array(), a.to_array(), "copy/equal")
        k.eq(lie.norm2(lie.quat(k.r.PoseSE3.identity())), one, "identity/unit")
    obs.append(Ob("C11/PoseSE3/unit-quaternion-preserved", se3_ops,
                  funcs=[SE3 + ".__add__", SE3 + ".__sub__", SE3 + ".inverse", SE3 + ".copy", SE3 + ".identity"]))

    def se3_boxplus(k):
        a = k.pose("SE3", "a")
        d = k.reals("d", 6)      # ANY increment: both branches of the clamp are explored
        res = a + k.np.array(d)
        k.eq(lie.norm2(lie.quat(res)), 1, "boxplus/unit (both branches of the norm clamp)")
        res2 = operator.iadd(a, k.np.array(d))
        k.eq(lie.norm2(lie.quat(res2)), 1, "iadd-boxplus/unit")
    obs.append(Ob("C11/PoseSE3/boxplus-unit-on-both-branches", se3_boxplus, funcs=[SE3 + ".__add__"]))

    def normalize(k):
        np = k.np
        t = k.reals("t", 3)
        q = k.reals("q", 4)
        n2 = lie.norm2(q)
        k.assume(n2 > 0, "non-zero quaternion")
        p = k.r.PoseSE3(list(t), list(q))
        ret = p.normalize()
        k.check(ret is None, "normalize works in place")
        k.eq([p[0], p[1], p[2]], t, "translation untouched")
        res = lie.quat(p)
        k.eq(lie.norm2(res), 1, "unit norm")
        k.holds(res[3] >= 0, "w >= 0")
        # same rotation: R(res) == I + (R(q) - I) / |q|^2   (the rotation of the non-unit q)
        Rq = lie.rotmat(np, q)
        Rr = lie.rotmat(np, res)
        I = lie.identity_matrix(np, 3)
        k.eq((Rr - I) * n2, Rq - I, "same rotation")
    obs.append(Ob("C11/PoseSE3/normalize", normalize, funcs=[SE3 + ".normalize"]))

    # ---- loop invariant over optimizer iterations: arbitrary solver result, edges cut to opaque contributions
    for iters in ((1,) if tier == "quick" else (1, 2)):
        def loop_inv(k, iters=iters):
            r_ = k.r
            ghost = common.Ghost()
            Cut = common.opaque_edge_class(k, ghost)
            a, l, s2 = k.pose("SE3", "a"), k.pose("R3", "l"), k.pose("SE2", "s")
            vs = [r_.Vertex(5, l), r_.Vertex(1, a), r_.Vertex(2, s2)]
            es = [Cut([1, 5]), Cut([1, 2])]
            g = r_.Graph(es, vs)
            with common.counting_spsolve(k, ghost):
                g.optimize(tol=k.nonneg("tol"), max_iter=iters, fix_first_pose=False, verbose=False)
            k.check(ghost.s == iters or ghost.s < iters, "ghost")
            for v in vs:
                if isinstance(v.pose, r_.PoseSE3):
                    k.eq(lie.norm2(lie.quat(v.pose)), 1, "SE3 vertex %d unit after %d update(s)" % (v.id, ghost.s))
                elif isinstance(v.pose, r_.PoseSE2):
                    in_range(k, v.pose[2], "SE2 vertex %d after %d update(s)" % (v.id, ghost.s))
                k.check(type(v.pose) in (r_.PoseSE3, r_.PoseSE2, r_.PoseR3), "pose class kept")
        obs.append(Ob("C11/optimize/invariant-preserved-by-%d-iteration(s)-with-arbitrary-dx" % iters, loop_inv, solver="fault",
                      scope="shape-bounded", bound="one 3-vertex graph (SE3, R3, SE2); the step is proved for an arbitrary unit state and arbitrary dx, which is the inductive step for every iteration count",
                      funcs=["graphslam.graph.Graph.optimize", SE3 + ".__add__", "graphslam.pose.base_pose.BasePose.__iadd__"]))

    # canaries
    def canary_range(k):
        a = k.angle("a")
        res = k.r.util.neg_pi_to_pi(a)
        k.holds((res >= 0) & (res <= k.np.pi), "wrap-in-[0,pi]")
    obs.append(Ob("C11/canary/wrap-range-too-small", canary_range, tier="canary"))

    def canary_norm(k):
        a = k.pose("SE3", "a")
        q = k.reals("q", 4)
        b = k.r.PoseSE3([0, 0, 0], list(q))          # not unit
        k.eq(lie.norm2(lie.quat(a + b)), 1, "unit-without-unit-operand")
    obs.append(Ob("C11/canary/unit-from-non-unit-operand", canary_norm, tier="canary"))
    return obs


META = {
    "bounds": "pose-level obligations unbounded; the optimizer invariant is proved as an inductive step (arbitrary unit state, arbitrary dx) on one 3-vertex graph shape",
    "assumptions": ["'up to accumulated rounding', |angle| up to 1e6 and 10^4-operation chains are floating-point statements: not decided (real arithmetic only)",
                    "induction over iterations from the proved step is not mechanised"],
}
