"""C12 -- the optimization report is faithful and the stopping rule is the documented one.

Cuts are placed at the EDGE level: edge.calc_chi2_gradient_hessian() and edge.calc_chi2() return, for the graph state
with ghost counter s (number of updates applied so far), opaque symbols c_{e,s} >= 0 and opaque gradient/Hessian blocks;
spsolve is a deterministic stub.  Everything above -- _Chi2GradientHessian, _calc_chi2_gradient_hessian, Graph.calc_chi2,
Graph.optimize -- runs for real, on EVERY control path (the path explorer forks on the symbolic chi^2 comparisons).
With c_s = sum_e c_{e,s}:

  report     initial_chi2 == c_0; iteration_results[k].chi2 == c_{k+1}; final_chi2 == c_s == calc_chi2() afterwards;
             num_iterations == s; len(iteration_results) in {s, s+1}
  stopping   as a band (kappa = 1e-9, floor phi = 1e-12), not as a formula: with no return before comparison i,
               MUST_i = c_{i-1} >= phi and c_i <= c_{i-1} and c_{i-1}-c_i < (1-kappa) tol c_{i-1} - kappa tol   ==> stop at i
               stop at i ==> MAY_i = c_i <= c_{i-1} and (c_{i-1} < phi or c_{i-1}-c_i <= (1+kappa) tol c_{i-1} + kappa tol)
             converged <=> the run ended on a stop; otherwise it ran max_iter updates
  verbose    results and final state identical for verbose=True/False
  splitting  optimize(n1); optimize(n2) == optimize(n1+n2) for tol = 0 (no hidden state)
max_iter is a real bound (CPython runs the loop): 1..4 quick, 1..6 thorough.
"""
import itertools
from fractions import Fraction

from gsv.ob import Ob
from gsv.contracts import common

OPT = "graphslam.graph.Graph.optimize"
FUNCS = [OPT, "graphslam.graph.Graph._calc_chi2_gradient_hessian", "graphslam.graph._Chi2GradientHessian.update",
         "graphslam.graph.Graph.calc_chi2"]
KAPPA = Fraction(1, 10 ** 9)
PHI = Fraction(1, 10 ** 12)


def make_graph(k, ghost, n_edges, name="Cut"):
    r = k.r
    Cut = common.opaque_edge_class(k, ghost, name=name)
    vs = [r.Vertex(0, r.PoseR2([k.real("v0x"), k.real("v0y")])), r.Vertex(1, r.PoseR2([k.real("v1x"), k.real("v1y")]))]
    # n_edges == "fixed-only-edge": besides a binary edge, an edge that touches only the fixed vertex 0 (its chi2 still counts)
    if n_edges == "fixed-only-edge-real":
        # ... and one whose contributions come from the REAL BaseEdge.calc_chi2_gradient_hessian (only calc_error is cut)
        u, Om = k.vec("u", 2), k.spd_matrix("Ou", 2)
        c_u = u[0] * Om[0, 0] * u[0] + u[0] * Om[0, 1] * u[1] + u[1] * Om[1, 0] * u[0] + u[1] * Om[1, 1] * u[1]

        class ErrEdge(r.BaseEdge):
            def calc_error(self):
                return k.np.array(u)

            def is_valid(self):
                return self._is_valid()

            def _chi2(self):
                return c_u
        es = [Cut([0, 1]), ErrEdge([0], Om, None)]
        return r.Graph(es, vs), es, vs
    layout = [[0, 1], [0]] if n_edges == "fixed-only-edge" else [[0, 1], [1, 0], [1]][:n_edges]
    es = [Cut(list(ids)) for ids in layout]
    return r.Graph(es, vs), es, vs


def chi2_sum(es, ghost_s, ghost):
    saved = ghost.s
    ghost.s = ghost_s
    try:
        tot = 0
        for e in es:
            tot = tot + e._chi2()
        return tot
    finally:
        ghost.s = saved


def chi2_sum_raw(es, ghost_s, ghost):
    """Sum of the UNSCALED opaque chi2 symbols of the cut edges at ghost state ghost_s."""
    saved = ghost.s
    ghost.s = ghost_s
    try:
        tot = 0
        for e in es:
            tot = tot + type(e)._chi2(e)
        return tot
    finally:
        ghost.s = saved


def must_rel(c_prev, c_new, tol, floor=Fraction(1, 10 ** 15)):
    """Scale-free reading of the band: only the guard eps = 2^-52 in the denominator is absolute; it matters below ~1e-7."""
    return (c_prev >= Fraction(1, 10 ** 6)) & (c_new <= c_prev) & (c_prev - c_new < (1 - KAPPA) * tol * c_prev - KAPPA * tol * c_prev)


def may_rel(c_prev, c_new, tol):
    return (c_new <= c_prev) & ((c_prev < Fraction(1, 10 ** 6)) | (c_prev - c_new <= (1 + KAPPA) * tol * c_prev + KAPPA * tol * c_prev))


def must(c_prev, c_new, tol):
    return (c_prev >= PHI) & (c_new <= c_prev) & (c_prev - c_new < (1 - KAPPA) * tol * c_prev - KAPPA * tol)


def may(c_prev, c_new, tol):
    return (c_new <= c_prev) & ((c_prev < PHI) | (c_prev - c_new <= (1 + KAPPA) * tol * c_prev + KAPPA * tol))


def neg(k, b):
    if isinstance(b, bool):
        return not b
    return ~b if k.mode == "sym" else (not bool(b))


def report_and_rule(k, n_edges, max_iter, verbose, tol_zero):
    ghost = common.Ghost()
    g, es, vs = make_graph(k, ghost, n_edges)
    tol = 0 if tol_zero else k.nonneg("tol")
    with common.counting_spsolve(k, ghost):
        ret = g.optimize(tol=tol, max_iter=max_iter, verbose=verbose)
    s = ghost.s
    cs = [chi2_sum(es, i, ghost) for i in range(max_iter + 1)]
    k.eq(ret.initial_chi2, cs[0], "initial_chi2 is the chi2 of the initial state")
    k.eq(ret.final_chi2, cs[s], "final_chi2 is the chi2 of the returned state")
    k.eq(g.calc_chi2(), cs[s], "calc_chi2() of the returned graph equals that value")
    k.eq(ret.final_chi2, g.calc_chi2(), "final_chi2 == calc_chi2()")
    k.check(ret.num_iterations == s, "num_iterations == number of updates applied", (ret.num_iterations, s))
    k.check(len(ret.iteration_results) in (s, s + 1), "len(iteration_results) in {s, s+1}", (len(ret.iteration_results), s))
    for i in range(s):
        k.eq(ret.iteration_results[i].chi2, cs[i + 1], "iteration_results[%d].chi2 is the chi2 after update %d" % (i, i + 1))
    k.check(1 <= s <= max_iter or (s == 0 and False), "between 1 and max_iter updates", s)
    conv = ret.converged
    # no comparison before the last one was obliged to stop
    for i in range(1, s):
        k.holds(neg(k, must(cs[i - 1], cs[i], tol)), "comparison %d: the documented rule did not demand a stop there" % i)
    if s < max_iter:
        k.holds(conv, "a run that ends before max_iter reports converged")
        k.holds(may(cs[s - 1], cs[s], tol), "early stop only where the documented rule allows it")
    else:
        k.implies(conv, may(cs[s - 1], cs[s], tol), "converged at the last comparison only where the rule allows it")
        k.implies(neg(k, conv), neg(k, must(cs[s - 1], cs[s], tol)), "not converged only where the rule does not demand it")
    k.check(isinstance(conv, bool) or k.mode == "sym" or conv in (True, False), "converged is a boolean")
    k.note("s", s)


def obligations(r, tier, seed):
    obs = []
    iters = (1, 2, 3, 4) if tier == "quick" else (1, 2, 3, 4, 5, 6)
    for max_iter in iters:
        for n_edges in (((2,) if max_iter > 2 else (1, 3)) if tier == "quick" else (1, 2, 3)) + (("fixed-only-edge", "fixed-only-edge-real") if max_iter <= 2 or tier == "thorough" else ()):
            for verbose in (False, True):
                for tol_zero in (False, True):
                    if tier == "quick" and verbose and tol_zero:
                        continue
                    def ob(k, n_edges=n_edges, max_iter=max_iter, verbose=verbose, tol_zero=tol_zero):
                        report_and_rule(k, n_edges, max_iter, verbose, tol_zero)
                    obs.append(Ob("C12/report-and-stopping-rule/max_iter=%d/edges=%s/verbose=%s/tol=%s" % (max_iter, n_edges, verbose, "0" if tol_zero else "sym"),
                                  ob, scope="shape-bounded", bound="max_iter=%d, %s cut edges, 2 vertices" % (max_iter, n_edges),
                                  funcs=FUNCS, solver="functional", light=True, max_paths=3000))

    for max_iter in ((1, 2, 3) if tier == "quick" else (1, 2, 3, 4, 5)):
        def verbose_indep(k, max_iter=max_iter):
            cache_ghosts = []
            outs = []
            for verbose in (False, True):
                ghost = common.Ghost()
                g, es, vs = make_graph(k, ghost, 2)
                tol = k.nonneg("tol")
                with common.counting_spsolve(k, ghost):
                    ret = g.optimize(tol=tol, max_iter=max_iter, verbose=verbose)
                outs.append((ret, vs, ghost.s, g.calc_chi2()))
            (ra, va, sa, fa), (rb, vb, sb, fb) = outs
            k.check(sa == sb, "same number of updates", (sa, sb))
            k.check(ra.num_iterations == rb.num_iterations, "same num_iterations")
            k.check(len(ra.iteration_results) == len(rb.iteration_results), "same number of iteration results")
            k.same(ra.initial_chi2, rb.initial_chi2, "same initial_chi2")
            k.same(ra.final_chi2, rb.final_chi2, "same final_chi2")
            k.same(fa, fb, "same calc_chi2() afterwards")
            ca, cb = ra.converged, rb.converged
            k.implies(ca, cb, "converged: silent => verbose")
            k.implies(cb, ca, "converged: verbose => silent")
            for x, y in zip(va, vb):
                k.same(x.pose.to_array(), y.pose.to_array(), "same final pose of vertex %d" % x.id)
                k.check(x.fixed == y.fixed, "same fixed flag")
            for i, (x, y) in enumerate(zip(ra.iteration_results, rb.iteration_results)):
                if x.chi2 is None or y.chi2 is None:
                    k.check(x.chi2 is None and y.chi2 is None, "iteration %d chi2 both unset" % i)
                else:
                    k.same(x.chi2, y.chi2, "same chi2 of iteration %d" % i)
        obs.append(Ob("C12/verbose-does-not-alter-results/max_iter=%d" % max_iter, verbose_indep, scope="shape-bounded",
                      bound="max_iter=%d, 2 cut edges" % max_iter, funcs=[OPT], solver="functional", light=True, max_paths=3000))

    # ---- "converged ... report exactly that": the test applied after the LAST update is the test the loop applies.  Exact, no band:
    #      run the same graph (same opaque chi2 sequence, functional solver) with max_iter = n and with max_iter = n + 1.  When
    #      the first run used all n updates, it reports converged  <=>  the second run stopped after n updates.
    for n in ((1, 2, 3) if tier == "quick" else (1, 2, 3, 4, 5)):
        for tol_zero in (False, True):
            def same_predicate(k, n=n, tol_zero=tol_zero):
                tol = 0 if tol_zero else k.nonneg("tol")
                ghost_a = common.Ghost()
                ga, esa, vsa = make_graph(k, ghost_a, 2)
                with common.counting_spsolve(k, ghost_a):
                    ra = ga.optimize(tol=tol, max_iter=n, verbose=False)
                ghost_b = common.Ghost()
                gb, esb, vsb = make_graph(k, ghost_b, 2)
                with common.counting_spsolve(k, ghost_b):
                    rb = gb.optimize(tol=tol, max_iter=n + 1, verbose=False)
                k.note("updates", (ghost_a.s, ghost_b.s))
                if ghost_a.s < n:
                    k.check(ghost_b.s == ghost_a.s, "a run that stopped early stops at the same update with a larger max_iter", (ghost_a.s, ghost_b.s))
                    k.holds(ra.converged, "and reports converged")
                    k.holds(rb.converged, "and so does the longer run")
                    return
                k.check(ghost_b.s >= n, "the longer run does not stop before update n either", ghost_b.s)
                if ghost_b.s == n:
                    k.holds(ra.converged, "the longer run stopped after update n  ==>  the run limited to n updates reports converged")
                else:
                    k.holds(neg(k, ra.converged), "the longer run went past update n  ==>  the run limited to n updates reports not converged")
            obs.append(Ob("C12/converged-at-the-limit-is-the-loop-test/max_iter=%d/tol=%s" % (n, "0" if tol_zero else "sym"), same_predicate,
                          scope="shape-bounded", bound="max_iter=%d vs %d, 2 cut edges" % (n, n + 1), funcs=[OPT], solver="functional", light=True, max_paths=3000))

    nmax = 4 if tier == "quick" else 6
    for n in range(2, nmax + 1):
        for split in compositions(n):
            if len(split) < 2 or (tier == "quick" and len(split) > 2 and n > 3):
                continue
            def splitting(k, n=n, split=split):
                # The clause is about hidden state, not about the stopping rule: the chi2 sequence is taken generic (above the
                # absolute floor of the eps guard, no two consecutive values exactly equal), so that with tol = 0 no reading of
                # the rule -- '<' or '<=', '+eps' or '-eps' -- stops early.
                ghost_a = common.Ghost()
                ga, esa, vsa = make_graph(k, ghost_a, 2)
                cs = [chi2_sum(esa, i, ghost_a) for i in range(n + 1)]
                for i in range(n + 1):
                    k.assume(cs[i] >= Fraction(1, 10 ** 6), "chi2 above the absolute floor of the eps guard")
                    if i:
                        k.assume((cs[i] - cs[i - 1] > 0) | (cs[i] - cs[i - 1] < 0), "consecutive chi2 values differ")
                with common.counting_spsolve(k, ghost_a):
                    ra = ga.optimize(tol=0, max_iter=n, verbose=False)
                ghost_b = common.Ghost()
                gb, esb, vsb = make_graph(k, ghost_b, 2)
                rets = []
                with common.counting_spsolve(k, ghost_b):
                    for part in split:
                        rets.append(gb.optimize(tol=0, max_iter=part, verbose=False))
                k.check(ghost_a.s == n and ghost_b.s == n, "both executions apply n updates", (ghost_a.s, ghost_b.s))
                for x, y in zip(vsa, vsb):
                    k.same(x.pose.to_array(), y.pose.to_array(), "same final pose of vertex %d" % x.id)
                for (A1, b1, _), (A2, b2, _) in zip(ghost_a.solver_calls, ghost_b.solver_calls):
                    k.same(k.dense(A1), k.dense(A2), "same matrix handed to the solver")
                    k.same(k.dense(b1), k.dense(b2), "same right-hand side handed to the solver")
                k.same(ra.final_chi2, rets[-1].final_chi2, "same final chi2")
                k.same(ra.initial_chi2, rets[0].initial_chi2, "same initial chi2")
                done = 0
                for part, rr in zip(split, rets):
                    k.check(rr.num_iterations == part, "each part reports its own iteration count")
                    k.same(rr.initial_chi2, chi2_sum(esb, done, ghost_b), "a part starts from the chi2 of the state it was given")
                    done += part
            obs.append(Ob("C12/splitting/%d=%s" % (n, "+".join(map(str, split))), splitting, scope="shape-bounded",
                          bound="n=%d" % n, funcs=[OPT], solver="functional", light=True, max_paths=3000))

    # canaries
    def canary_strict(k):
        ghost = common.Ghost()
        g, es, vs = make_graph(k, ghost, 1)
        tol = k.nonneg("tol")
        with common.counting_spsolve(k, ghost):
            ret = g.optimize(tol=tol, max_iter=2, verbose=False)
        s = ghost.s
        cs = [chi2_sum(es, i, ghost) for i in range(3)]
        if s < 2:
            k.holds(cs[s] < cs[s - 1], "stop requires a strict decrease (wrong: equality also stops)")
        else:
            k.holds(neg(k, (cs[1] <= cs[0]) & (cs[0] - cs[1] < tol * cs[0] / 2)), "continuing proves the decrease was large")
    obs.append(Ob("C12/canary/strict-decrease-required", canary_strict, tier="canary", solver="functional", light=True))

    def canary_offby1(k):
        ghost = common.Ghost()
        g, es, vs = make_graph(k, ghost, 1)
        with common.counting_spsolve(k, ghost):
            ret = g.optimize(tol=k.nonneg("tol"), max_iter=2, verbose=False)
        k.check(ret.num_iterations == ghost.s + 1, "num_iterations off by one")
    obs.append(Ob("C12/canary/num-iterations-off-by-one", canary_offby1, tier="canary", solver="functional", light=True))
    return obs


def compositions(n):
    if n == 0:
        yield ()
        return
    for first in range(1, n + 1):
        for rest in compositions(n - first):
            yield (first,) + rest


META = {
    "bounds": "max_iter 1..4 (quick) / 1..6 (thorough); 1-3 cut edges on 2 vertices; all control paths of optimize for each; splits of n <= 4 / 6",
    "assumptions": ["edge chi2 values are >= 0 (positive semi-definite information)",
                    "the band absorbs the +eps guard in the denominator and < vs <= exactly at the tolerance; below the absolute floor 1e-12 only chi2_new <= chi2_prev is required",
                    "max_iter = 0 raises IndexError in the repository; the property quantifies over max_iter >= 1"],
}
