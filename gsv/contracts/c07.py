"""C07 -- chi^2 and the optimization trajectory are independent of the world frame.

Edge level (proof for all inputs, modulo the unit-quaternion / cos-sin ideals), with a symbolic rigid transform T applied
through the REAL operators  T + pose  /  T + point  (a translation for R^n graphs):

  error       calc_error(T (+) .) == calc_error(.)                 hence chi^2 unchanged for every information matrix
  jacobians   the Jacobian w.r.t. a POSE vertex is unchanged (poses are updated by right-multiplication); the Jacobian
              w.r.t. a landmark POINT becomes J . R_T^T (points are updated additively in the world frame)
  update      (T (+) p) [+] d == T (+) (p [+] d) for poses;  (T (+) l) [+] (R_T d) == T (+) (l [+] d) for points

Consequence (linear algebra, assumed): with Q = blockdiag(I on pose blocks, R_T on point blocks) the moved graph's normal
equations are  (Q H Q^T) dx' = -(Q b), whose solution is dx' = Q dx, and the updates above make the moved result the
transform of the original result.

Trajectory (shape- and iteration-bounded), on graphs whose edges are cut to opaque (e, J) -- legitimate by the edge-level
facts: the moved graph's edges report the same e and the J stated above.  The real optimize(max_iter=k, tol=0) is run on the
graph and on its image: pose-only graphs and R^n graphs receive IDENTICAL systems (deterministic solver stub); for mixed
pose/point graphs the second solve is given the candidate Q dx, which is accepted only after it is verified to solve the
system handed to the solver modulo the first system's equations (uniqueness of the solution of a non-singular system is the
assumption).  After every run: pose'_v == T (+) pose_v.  Also a real-edge R^2 graph with nothing cut.
"""
from gsv.ob import Ob, TYPES
from gsv.kernel import POSE_C, POINT_OF
from gsv.specs import lie
from gsv.contracts import common, graphs
from gsv.contracts.c01 import make_odometry, make_landmark, LANDMARK_TYPINGS, ODO, LMK


def same_pose(k, T, a, b, label):
    k.check(type(a) is type(b), label + "/class")
    k.eq(lie.hom(k.np, T, a), lie.hom(k.np, T, b), label + "/hom")
    if T == "SE3":
        k.eq(lie.quat(a), lie.quat(b), label + "/quat")
    if T in ("R2", "R3"):
        k.eq(a.to_array(), b.to_array(), label + "/array")


def rotation_of(k, F, Tr):
    """Rotation matrix of the frame transform (None for a translation)."""
    if F == "SE2":
        return lie.rot2(k.np, k.np.cos(Tr[2]), k.np.sin(Tr[2]))
    if F == "SE3":
        return lie.rotmat(k.np, lie.quat(Tr))
    return None


def chi2_nonneg(k, es, ghost, upto):
    """Positive semi-definite information: every edge's chi2 is >= 0 in every state that is visited."""
    saved = ghost.s
    for s in range(upto + 1):
        ghost.s = s
        for e in es:
            k.assume(e.calc_chi2() >= 0, "chi2 >= 0 (positive semi-definite information)")
    ghost.s = saved


def obligations(r, tier, seed):
    obs = []
    for T in TYPES:
        def odo(k, T=T):
            Tr = k.pose(T, "T")
            p1, p2, z = k.pose(T, "p1"), k.pose(T, "p2"), k.pose(T, "z")
            e0 = make_odometry(k, T, [p1, p2], z)
            e1 = make_odometry(k, T, [Tr + p1, Tr + p2], z)
            k.eq(e1.calc_error(), e0.calc_error(), "error unchanged")
            J0, J1 = e0.calc_jacobians(), e1.calc_jacobians()
            k.eq(J1[0], J0[0], "jacobian of vertex 0 unchanged")
            k.eq(J1[1], J0[1], "jacobian of vertex 1 unchanged")
        obs.append(Ob("C07/edge/odometry/%s" % T, odo, funcs=[ODO + ".calc_error", ODO + ".calc_jacobians"], eager=(T == "SE3")))

        def upd(k, T=T):
            Tr, p = k.pose(T, "T"), k.pose(T, "p")
            d = k.reals("d", POSE_C[T])
            if T == "SE3":
                k.assume(d[3] * d[3] + d[4] * d[4] + d[5] * d[5] <= 1, "rotational increment of norm <= 1")
            darr = k.np.array(list(d))
            same_pose(k, T, (Tr + p) + darr, Tr + (p + darr), "(T+p) [+] d == T + (p [+] d)")
        obs.append(Ob("C07/update-is-left-invariant/pose/%s" % T, upd, funcs=["graphslam.pose.%s.Pose%s.__add__" % (T.lower(), T)]))

    for F, PT in (("SE2", "R2"), ("SE3", "R3")):
        def upd_pt(k, F=F, PT=PT):
            Tr, l = k.pose(F, "T"), k.pose(PT, "l")
            n = POSE_C[PT]
            d = k.vec("d", n)
            R = rotation_of(k, F, Tr)
            same_pose(k, PT, (Tr + l) + k.np.dot(R, d), Tr + (l + d), "(T+l) [+] (R_T d) == T + (l [+] d)")
        obs.append(Ob("C07/update-is-left-equivariant/point/%s-%s" % (F, PT), upd_pt,
                      funcs=["graphslam.pose.%s.Pose%s.__add__" % (F.lower(), F), "graphslam.pose.%s.Pose%s.__add__" % (PT.lower(), PT)]))

    for TP, TL in LANDMARK_TYPINGS:
        def lmk(k, TP=TP, TL=TL):
            Tr = k.pose(TP, "T")
            p, l = k.pose(TP, "p"), k.pose(TL, "l")
            off, z = k.pose(TP, "off"), k.pose(TL, "z")
            e0 = make_landmark(k, TP, TL, [p, l], z, off)
            e1 = make_landmark(k, TP, TL, [Tr + p, Tr + l], z, off)
            k.check(type(Tr + l) is type(l), "transformed landmark keeps its class")
            k.eq(e1.calc_error(), e0.calc_error(), "error unchanged")
            J0, J1 = e0.calc_jacobians(), e1.calc_jacobians()
            k.eq(J1[0], J0[0], "jacobian of the pose unchanged")
            R = rotation_of(k, TP, Tr)
            if R is None:
                k.eq(J1[1], J0[1], "jacobian of the landmark unchanged (translation)")
            else:
                k.eq(J1[1], k.np.dot(J0[1], k.np.transpose(R)), "jacobian of the landmark == J . R_T^T")
        obs.append(Ob("C07/edge/landmark/%s-%s" % (TP, TL), lmk, funcs=[LMK + ".calc_error", LMK + ".calc_jacobians"], eager=(TP == "SE3")))

    # ---- trajectory with cut edges
    shapes = [
        {"vertices": [(0, "SE2", False), (1, "SE2", False), (2, "SE2", False)], "edges": [("cut", (0, 2), 3), ("cut", (0, 1), 2), ("cut", (2, 1), 2)], "frame": "SE2"},
        {"vertices": [(4, "R2", True), (1, "R2", False)], "edges": [("cut", (4, 1), 2), ("cut", (1,), 1)], "frame": "R2"},
        {"vertices": [(0, "SE3", False), (7, "SE3", True)], "edges": [("cut", (0, 7), 3)], "frame": "SE3"},
        {"vertices": [(3, "R3", False), (2, "R3", False), (1, "R3", True)], "edges": [("cut", (3, 2), 3), ("cut", (2, 1), 3)], "frame": "R3"},
        {"vertices": [(0, "SE2", False), (5, "R2", False), (2, "SE2", True)], "edges": [("cut", (0, 2), 3), ("cut", (0, 5), 2), ("cut", (2, 5), 2)], "frame": "SE2"},
        {"vertices": [(0, "SE3", False), (7, "R3", False)], "edges": [("cut", (0, 7), 3), ("cut", (7,), 2)], "frame": "SE3"},
    ]
    for si, shape in enumerate(shapes):
        mixed = len({T for _, T, _ in shape["vertices"]}) > 1
        for iters in ((1, 2) if tier == "quick" else (1, 2, 3)):
            if shape["frame"] == "SE3" and iters > (1 if tier == "quick" else 2):
                continue
            if mixed and iters > 1 and tier == "quick":
                continue
            for ffp in (True, False):
                def traj(k, shape=shape, iters=iters, ffp=ffp, mixed=mixed):
                    F = shape["frame"]
                    Tr = k.pose(F, "T")
                    R = rotation_of(k, F, Tr)
                    sh = dict(shape, fix_first_pose=ffp, idset=0)
                    gh1, gh2 = common.Ghost(), common.Ghost()
                    g1, vs1, es1 = graphs.build(k, sh, gh1, opaque_chi2=True)
                    g2, vs2, es2 = graphs.build(k, sh, gh2, point_rot=R if mixed else None, opaque_chi2=True)   # same symbols: the same graph ...
                    for v in vs2:
                        v.pose = Tr + v.pose                                                   # ... moved by T through the real operator
                    dims = [POSE_C[Tv] for _, Tv, _ in sh["vertices"]]
                    N = sum(dims)
                    if k.mode == "sym":
                        for c in range(iters):
                            graphs.assume_small_rotations(k, sh, call=c)
                    cut = lambda self: _cut(self, k)
                    with common.counting_spsolve(k, gh1), common.patched(k.r.Graph, calc_chi2=cut):
                        g1.optimize(tol=0, max_iter=iters, fix_first_pose=ffp, verbose=False)
                    # Q = blockdiag(I for pose vertices, R_T for point vertices)
                    Q = [[(1 if i == j else 0) for j in range(N)] for i in range(N)]
                    if mixed:
                        off = 0
                        for (_, Tv, _), d in zip(sh["vertices"], dims):
                            if Tv in ("R2", "R3"):
                                for i in range(d):
                                    for j in range(d):
                                        Q[off + i][off + j] = R[i, j]
                            off += d
                        if k.mode == "sym":
                            k.set_solver_model(_conjugate_model(k, gh1, Q, N, R))
                    with common.counting_spsolve(k, gh2), common.patched(k.r.Graph, calc_chi2=cut):
                        g2.optimize(tol=0, max_iter=iters, fix_first_pose=ffp, verbose=False)
                    k.check(gh1.s == iters and gh2.s == iters, "both runs apply %d updates" % iters, (gh1.s, gh2.s))
                    if not mixed:
                        for (A1, b1, d1), (A2, b2, d2) in zip(gh1.solver_calls, gh2.solver_calls):
                            k.same(k.dense(A1), k.dense(A2), "same matrix handed to the solver")
                            k.same(k.dense(b1), k.dense(b2), "same right-hand side")
                    if k.mode == "num":
                        from gsv.kernel import Reject
                        import numpy
                        for (A1, _, d1) in gh1.solver_calls:
                            if numpy.linalg.cond(k.dense(A1)) > 1e8 or not numpy.all(numpy.isfinite(d1)):
                                raise Reject("singular system: the instance has a gauge freedom, the solver result is not determined")
                        off = 0
                        for (_, Tv, _) in sh["vertices"]:
                            if Tv == "SE3":
                                for (_, _, d1) in gh1.solver_calls:
                                    if sum(float(d1[off + i]) ** 2 for i in (3, 4, 5)) > 1:
                                        raise Reject("rotational update of norm > 1")
                            off += POSE_C[Tv]
                    for v1, v2, (_, Tv, _) in zip(vs1, vs2, sh["vertices"]):
                        same_pose(k, Tv, v2.pose, Tr + v1.pose, "vertex %d: result of the moved graph == T + result of the original" % v1.id)
                obs.append(Ob("C07/trajectory/cut-edges/shape%d-%s%s/iters=%d/%s" % (si, shape["frame"], "-mixed" if mixed else "", iters, "fix" if ffp else "nofix"), traj,
                              scope="shape-bounded", bound="shape %d, %d iterations" % (si, iters), solver="constrained" if mixed else "functional",
                              funcs=["graphslam.graph.Graph.optimize"], light=(shape["frame"] != "SE3"), max_paths=400))

    # ---- trajectory with real R2 edges, nothing cut (translation frame)
    for iters in ((1,) if tier == "quick" else (1, 2)):
        def traj_real(k, iters=iters):
            r_ = k.r
            Tr = k.pose("R2", "T")

            def mk(move):
                ps = [k.pose("R2", "v%d" % i) for i in range(3)]
                if move:
                    ps = [Tr + p for p in ps]
                vs = [r_.Vertex(i, p, fixed=(i == 2)) for i, p in enumerate(ps)]
                es = [r_.EdgeOdometry([0, 1], k.spd_matrix("O0", 2), k.pose("R2", "z0")),
                      r_.EdgeOdometry([2, 1], k.spd_matrix("O1", 2), k.pose("R2", "z1")),
                      r_.EdgeLandmark([0, 2], k.spd_matrix("O2", 2), k.pose("R2", "z2"), k.pose("R2", "off"), 0)]
                return r_.Graph(es, vs), vs
            g1, vs1 = mk(False)
            g2, vs2 = mk(True)
            k.eq(g2.calc_chi2(), g1.calc_chi2(), "chi2 of the moved graph == chi2 of the original")
            gh1, gh2 = common.Ghost(), common.Ghost()
            with common.counting_spsolve(k, gh1):
                g1.optimize(tol=0, max_iter=iters, fix_first_pose=False, verbose=False)
            with common.counting_spsolve(k, gh2):
                g2.optimize(tol=0, max_iter=iters, fix_first_pose=False, verbose=False)
            for (A1, b1, _), (A2, b2, _) in zip(gh1.solver_calls, gh2.solver_calls):
                k.eq(k.dense(A1), k.dense(A2), "same matrix handed to the solver")
                k.eq(k.dense(b1), k.dense(b2), "same right-hand side")
            for v1, v2 in zip(vs1, vs2):
                k.eq(v2.pose.to_array(), (Tr + v1.pose).to_array(), "vertex %d moved result == T + result" % v1.id, atol=1e-7)
            k.eq(g2.calc_chi2(), g1.calc_chi2(), "chi2 after optimization equal", rtol=1e-6)
        obs.append(Ob("C07/trajectory/real-R2-edges/iters=%d" % iters, traj_real, scope="shape-bounded", bound="one 3-vertex R2 graph, %d iterations" % iters,
                      solver="functional", funcs=["graphslam.graph.Graph.optimize", ODO + ".calc_error", LMK + ".calc_error"], light=True))

    def canary(k):
        Tr = k.pose("SE2", "T")
        p1, p2, z = k.pose("SE2", "p1"), k.pose("SE2", "p2"), k.pose("SE2", "z")
        e0 = make_odometry(k, "SE2", [p1, p2], z)
        e1 = make_odometry(k, "SE2", [p1 + Tr, p2 + Tr], z)        # RIGHT composition is not a change of world frame
        k.eq(e1.calc_error(), e0.calc_error(), "right-composition leaves the error unchanged")
    obs.append(Ob("C07/canary/right-composition", canary, tier="canary"))

    def canary2(k):
        Tr, p = k.pose("SE3", "T"), k.pose("SE3", "p")
        d = k.reals("d", 6)
        k.assume(d[3] * d[3] + d[4] * d[4] + d[5] * d[5] <= 1)
        darr = k.np.array(list(d))
        same_pose(k, "SE3", (Tr + p) + darr, (Tr + darr) + p, "update applied to T instead of p")
    obs.append(Ob("C07/canary/update-on-the-wrong-factor", canary2, tier="canary"))
    return obs


def _cut(graph, k):
    graph._chi2 = k.nonneg("chi2_final")
    return graph._chi2


def _conjugate_model(k, gh1, Q, N, R):
    """Solver model for the moved graph: propose Q dx (dx = the original graph's result of the same iteration) and accept it
    only if it is VERIFIED to solve the system handed to the solver, modulo the original system's equations with cofactors
    that are constants times entries of Q.  A non-singular system has one solution (assumption), so this is the result."""
    from gsv.symkernel import linear_membership
    from gsv.engine import sym as S
    from gsv.engine import symnp
    mult = [R[i, j] for i in range(R.shape[0]) for j in range(R.shape[1])]

    def model(A, b, call):
        st = S.state()
        idx = call - len(gh1.solver_calls)
        if idx < 0 or idx >= len(gh1.solver_calls):
            raise S.Unsupported("conjugate solver model called out of order")
        dx1 = gh1.solver_calls[idx][2]
        cand = [None] * N
        for i in range(N):
            acc = S.Sym(0)
            for j in range(N):
                q = Q[i][j]
                if isinstance(q, int) and q == 0:
                    continue
                acc = acc + q * dx1[j]
            cand[i] = acc
        eqs1 = list(st.memo.get("solver_eqs", []))
        ok = True
        for i in range(N):
            row = S.Sym(0)
            for j in range(N):
                a = A[i, j]
                if not a.n.is_zero():
                    row = row + a * cand[j]
            row = row - b[i]
            if not linear_membership(st, row.n, eqs1, multipliers=mult):
                ok = False
                break
        if ok:
            st.notes.append(("solver", "moved system: Q dx verified to solve it"))
            return symnp.array(cand)
        st.notes.append(("solver", "moved system: Q dx does NOT solve it -- unconstrained result"))
        return symnp.array([S.Sym(S.Poly.var(st.var("dxm%d_%d" % (call, i)))) for i in range(N)])
    return model


META = {
    "bounds": "edge-level obligations unbounded (all T, all operands); trajectories: 6 cut-edge shapes (pose-only, R^n, mixed pose/point) x 1-2 (quick) / 1-3 (thorough) iterations x fix_first_pose, one real R2 graph",
    "assumptions": ["induction over iterations from the edge-level facts and the C03 contract is written in DESIGN.md, not mechanised",
                    "the solver is a function of the system it is given; a non-singular system has exactly one solution (so the verified candidate Q dx is the solver's result for the moved system)",
                    "SE(3) updates with rotational norm <= 1 in the trajectory obligations", "positive semi-definite information (chi2 >= 0)"],
}
