"""C03 -- one optimizer iteration is exactly the Gauss-Newton step.

Top level (decides), per shape of the family G3 with all numbers symbolic: run the real Graph(...) and
optimize(max_iter=1); the ghost state of the spsolve stub gives the system (A, rhs) that was handed to the solver and the
symbols dx it returned.  Post-conditions:

  solver-call     spsolve is called exactly once per iteration
  system          (A, rhs) is EQUIVALENT to the spec reduced Gauss-Newton system assembled by gsv.specs.gn from each
                  edge's own public calc_error()/calc_jacobians()/information:  H_ff dx_f = -b_f,  dx_fixed = 0
  update          every free vertex ends at  pose [+]_spec dx[its slice]  (spec box-plus = C09's), slices = prefix sums
                  of the compact dimensions in list order

Internal (localise): BaseEdge.calc_chi2_gradient_hessian returns (e'Oe, [(g_i, e'O J_i)], [((g_i,g_j), J_i'O J_j)]_{i<=j});
Graph._gradient / _hessian equal the spec b / H entry-wise outside fixed rows and columns.
"""
from gsv.ob import Ob
from gsv.kernel import POSE_C
from gsv.specs import gn, lie
from gsv.contracts import common, graphs
from gsv.contracts.c09 import spec_pose_of_compact, pose_eq

FUNCS = ["graphslam.graph.Graph.optimize", "graphslam.graph.Graph._calc_chi2_gradient_hessian", "graphslam.graph._Chi2GradientHessian.update",
         "graphslam.graph.Graph._initialize", "graphslam.edge.base_edge.BaseEdge.calc_chi2_gradient_hessian"]


def _cut_chi2(graph, k):
    graph._chi2 = k.nonneg("chi2_final")
    return graph._chi2


def has_se3(shape):
    return any(T == "SE3" for _, T, _ in shape["vertices"])


def run_one_iteration(k, shape, want_update=True, check_fixed=False):
    ghost = common.Ghost()
    g, vs, es = graphs.build(k, shape, ghost)
    dims = [POSE_C[T] for _, T, _ in shape["vertices"]]
    H, b, offsets = gn.assemble(dims, graphs.spec_inputs(k, shape, vs, es))
    fixed_pos = graphs.fixed_positions(shape)
    A_spec, rhs_spec, fixed_idx = gn.reduced_system(H, b, offsets, dims, fixed_pos)
    before = [v.pose.copy() for v in vs]
    before_fixed = [v.fixed for v in vs]
    if k.mode == "sym":
        graphs.assume_small_rotations(k, shape)
    # the chi2 of the final state is not part of this obligation: cut Graph.calc_chi2 (it is C02's and C12's subject)
    with common.counting_spsolve(k, ghost), common.patched(k.r.Graph, calc_chi2=lambda self: _cut_chi2(self, k)):
        ret = g.optimize(tol=k.nonneg("tol"), max_iter=1, fix_first_pose=shape["fix_first_pose"], verbose=False)
    k.check(len(ghost.solver_calls) == 1, "spsolve called exactly once in one iteration", len(ghost.solver_calls))
    if len(ghost.solver_calls) != 1:
        return None
    A, rhs, dx = ghost.solver_calls[0]
    A, rhs = k.dense(A), k.dense(rhs)
    N = sum(dims)
    k.check(tuple(A.shape) == (N, N) and tuple(rhs.shape) == (N,) and len(dx) == N, "system has one unknown per compact coordinate", (A.shape, rhs.shape))
    if tuple(A.shape) != (N, N):
        return None
    if k.mode == "num":
        from gsv.kernel import Reject
        for p, (_, T, _) in enumerate(shape["vertices"]):
            if T == "SE3":
                rot = [float(dx[offsets[p] + i]) for i in (3, 4, 5)]
                if sum(x * x for x in rot) > 1:
                    raise Reject("rotational update of norm > 1")
    k.system_equiv([[A[i, j] for j in range(N)] for i in range(N)], [rhs[i] for i in range(N)], A_spec, rhs_spec, [dx[i] for i in range(N)],
                   "system handed to the solver <=> spec reduced Gauss-Newton system", fixed_idx=fixed_idx)
    for p, v in enumerate(vs):
        T = shape["vertices"][p][1]
        if p in fixed_pos:
            continue
        d = [dx[offsets[p] + i] for i in range(dims[p])]
        M, q = spec_pose_of_compact(k, T, d)
        qw = lie.hamilton(lie.quat(before[p]), q) if T == "SE3" else None
        pose_eq(k, T, v.pose, k.np.dot(lie.hom(k.np, T, before[p]), M), "vertex %d (position %d): pose [+] dx[%d:%d]" % (v.id, p, offsets[p], offsets[p] + dims[p]), qw)
    return ghost, vs, before, fixed_pos, dx, offsets, dims, before_fixed, g


def second_call_system(k, shape, first_call, remark):
    """Build, optionally run a first optimize, change marks, run optimize(fix_first_pose=False, max_iter=1) and compare the
    system of THAT call with the spec reduced system for the marks in force at that moment."""
    ghost = common.Ghost()
    g, vs, es = graphs.build(k, shape, ghost)
    dims = [POSE_C[T] for _, T, _ in shape["vertices"]]
    cut = lambda self: _cut_chi2(self, k)
    # first_call: None, the keyword arguments of one earlier call, or a list of (keyword arguments, re-marking) steps
    steps = [] if first_call is None else ([(first_call, None)] if isinstance(first_call, dict) else list(first_call))
    for kwargs, between in steps:
        with common.counting_spsolve(k, ghost), common.patched(k.r.Graph, calc_chi2=cut):
            g.optimize(tol=0, max_iter=1, verbose=False, **kwargs)
        if between is not None:
            between(vs)
    remark(vs)
    marked = [i for i, v in enumerate(vs) if v.fixed]
    H, b, offsets = gn.assemble(dims, graphs.spec_inputs(k, shape, vs, es))
    A_spec, rhs_spec, fixed_idx = gn.reduced_system(H, b, offsets, dims, marked)
    before = [v.pose.copy() for v in vs]
    n_before = len(ghost.solver_calls)
    with common.counting_spsolve(k, ghost), common.patched(k.r.Graph, calc_chi2=cut):
        g.optimize(tol=0, max_iter=1, fix_first_pose=False, verbose=False)
    k.check(len(ghost.solver_calls) == n_before + 1, "one solve in the call under test")
    A, rhs, dx = ghost.solver_calls[-1]
    A, rhs = k.dense(A), k.dense(rhs)
    N = sum(dims)
    k.system_equiv([[A[i, j] for j in range(N)] for i in range(N)], [rhs[i] for i in range(N)], A_spec, rhs_spec, [dx[i] for i in range(N)],
                   "system of this call <=> reduced system for the vertices marked fixed at the time of the call", fixed_idx=fixed_idx)
    for p_, v in enumerate(vs):
        k.check(v.fixed == (p_ in marked), "optimize(fix_first_pose=False) leaves the mark of vertex %d as it was" % p_, (p_, v.fixed))
        if p_ in marked:
            k.same(v.pose.to_array(), before[p_].to_array(), "marked vertex %d did not move" % p_)
        else:
            k.eq(v.pose.to_array(), (before[p_] + k.np.array([dx[offsets[p_] + i] for i in range(dims[p_])])).to_array(), "unmarked vertex %d moved by its slice of dx" % p_)



hist_shape = {"vertices": [(0, "R2", False), (1, "R2", False), (2, "R2", False)], "edges": [("cut", (0, 1), 2), ("cut", (1, 2), 2), ("cut", (2, 0), 2)],
              "fix_first_pose": False, "idset": 0}


def obligations(r, tier, seed):
    obs = []
    for shape in graphs.family(tier, seed, well_posed_only=True):
        def ob(k, shape=shape):
            run_one_iteration(k, shape)
        real = shape["pattern"].startswith("real")
        obs.append(Ob("C03/gauss-newton-step/%s" % shape["name"], ob, scope="shape-bounded", bound="shape " + shape["name"],
                      funcs=FUNCS, solver="constrained", light=not has_se3(shape), tags=("real-edges",) if real else (),
                      eager=(real and has_se3(shape))))

    # ---- a ternary edge in every vertex order meeting a binary edge on the pair of free vertices
    for shape in graphs.ternary_overlap_family(tier):
        def ob_t(k, shape=shape):
            run_one_iteration(k, shape)
        obs.append(Ob("C03/gauss-newton-step/ternary-overlap/%s" % shape["name"], ob_t, scope="shape-bounded", bound="shape " + shape["name"],
                      funcs=FUNCS, solver="constrained", light=True))

    # ---- histories: the step of a LATER optimize() call on the same Graph object is the Gauss-Newton step for the vertices marked
    #      fixed at that moment (nothing about the linear system survives from an earlier call)
    def set_marks(*marked):
        def remark(vs):
            for p, v in enumerate(vs):
                v.fixed = p in marked
        return remark
    histories = [
        ("fixed-set-kept", {"fix_first_pose": True}, lambda vs: None),
        ("fixed-set-grows", {"fix_first_pose": True}, set_marks(0, 1)),
        ("fixed-set-moves", {"fix_first_pose": True}, set_marks(2)),
        ("fixed-set-shrinks", [({"fix_first_pose": True}, set_marks(0, 1)), ({"fix_first_pose": False}, None)], set_marks(0)),
        ("fixed-set-grows-then-moves", [({"fix_first_pose": True}, set_marks(0, 2)), ({"fix_first_pose": False}, None)], set_marks(1)),
    ]
    for name, first, remark in histories:
        def hist(k, first=first, remark=remark):
            second_call_system(k, hist_shape, first, remark)
        obs.append(Ob("C03/history/%s" % name, hist, scope="shape-bounded", bound="3-vertex R2 cycle of cut edges, %d earlier call(s)" % (1 if isinstance(first, dict) else len(first)),
                      funcs=FUNCS, solver="constrained", light=True))

    # ---- internal: BaseEdge.calc_chi2_gradient_hessian, arity 1..3, every tuple of pose types (complete for custom edges)
    import itertools
    from gsv.ob import TYPES
    for arity in (1, 2, 3):
        for types in itertools.product(TYPES, repeat=arity):
            def cgh(k, types=types, arity=arity):
                r_ = k.r
                np = k.np
                m = 1 + (len("".join(types)) % 3)
                ghost = common.Ghost()
                Cut = graphs.cut_error_edge_class(k, ghost)
                vs = [r_.Vertex(i, k.pose(T, "v%d" % i, unit=False)) for i, T in enumerate(types)]
                gi = [k.integer("gi%d" % i) for i in range(arity)] if False else [7 * i + 3 for i in range(arity)]
                for v, g_ in zip(vs, gi):
                    v.gradient_index = g_
                Om = k.matrix("Om", m, m)          # full, also non-symmetric
                e = Cut(list(range(arity)), Om, m, vs)
                chi2, grads, hess = e.calc_chi2_gradient_hessian()
                err = e.calc_error()
                Js = e.calc_jacobians()
                k.eq(chi2, np.dot(np.dot(err, Om), err), "chi2 == e^T Omega e")
                k.check([x[0] for x in grads] == gi, "gradient contributions keyed by gradient_index in vertex order")
                for i in range(arity):
                    k.eq(grads[i][1], np.dot(np.dot(err, Om), Js[i]), "gradient block %d == e^T Omega J_%d" % (i, i))
                want_keys = [(gi[i], gi[j]) for i in range(arity) for j in range(i, arity)]
                k.check([x[0] for x in hess] == want_keys, "Hessian contributions for every pair i <= j, in order")
                it = iter(hess)
                for i in range(arity):
                    for j in range(i, arity):
                        k.eq(next(it)[1], np.dot(np.dot(np.transpose(Js[i]), Om), Js[j]), "Hessian block (%d,%d) == J_%d^T Omega J_%d" % (i, j, i, j))
            obs.append(Ob("C03/internal/BaseEdge.calc_chi2_gradient_hessian/%s" % "-".join(types), cgh, tier="internal",
                          funcs=["graphslam.edge.base_edge.BaseEdge.calc_chi2_gradient_hessian"]))

    # ---- internal: _Chi2GradientHessian.update -- the step of the left fold over the edge list, for an ARBITRARY prior state.
    #      Abstract view of the accumulator: (chi2, G: index -> vector, Hu: (i <= j) -> block).  For every incoming contribution
    #      of arity 1..3 with its gradient indices in increasing, decreasing and mixed order, and every prior state in which
    #      each touched key is absent or holds a symbolic block (plus sentinel keys that must not change):
    #          view' = view + incoming   (Hu[(min,max)] += contrib, transposed when the edge reports (max,min)),
    #      all keys satisfy i <= j, the object returned is the accumulator.  With this contract the accumulated view equals the
    #      sum over all edges by induction on the edge list, whatever its length (the induction itself is not mechanised).
    dims_of = {3: 2, 10: 3, 20: 1}
    orders = [(3,), (3, 10), (10, 3), (3, 10, 20), (20, 3, 10), (10, 20, 3), (20, 10, 3)]
    for order in orders:
        for prior in ("empty", "all-present", "some-present"):
            def upd(k, order=order, prior=prior):
                r_ = k.r
                np = k.np
                acc = r_.graph._Chi2GradientHessian()
                c0 = k.real("c0")
                acc.chi2 = c0
                keys_g = sorted(set(order))
                keys_h = sorted({(min(a, b), max(a, b)) for a in order for b in order})
                view_g, view_h = {}, {}
                n = 0
                for idx in keys_g:
                    n += 1
                    if prior == "all-present" or (prior == "some-present" and n % 2):
                        view_g[idx] = k.vec("G%d_" % idx, dims_of[idx])
                        acc.gradient[idx] = np.array(view_g[idx])
                for (a, b) in keys_h:
                    n += 1
                    if prior == "all-present" or (prior == "some-present" and n % 2):
                        view_h[(a, b)] = k.matrix("H%d_%d" % (a, b), dims_of[a], dims_of[b])
                        acc.hessian[(a, b)] = np.array(view_h[(a, b)])
                # sentinels: untouched keys
                sg, sh = k.vec("SG", 2), k.matrix("SH", 2, 2)
                acc.gradient[77] = np.array(sg)
                acc.hessian[(77, 99)] = np.array(sh)
                chi2_in = k.real("cin")
                g_in = [(idx, k.vec("g%d_%d_" % (i, idx), dims_of[idx])) for i, idx in enumerate(order)]
                h_in = [((order[i], order[j]), k.matrix("h%d_%d" % (i, j), dims_of[order[i]], dims_of[order[j]]))
                        for i in range(len(order)) for j in range(i, len(order))]
                incoming = (chi2_in, [(i, np.array(v)) for i, v in g_in], [(kk, np.array(m)) for kk, m in h_in])
                ret = r_.graph._Chi2GradientHessian.update(acc, incoming)
                k.check(ret is acc, "update returns the accumulator")
                k.eq(acc.chi2, c0 + chi2_in, "chi2' == chi2 + incoming chi2")
                want_g = {idx: (np.array(v) if v is not None else None) for idx, v in view_g.items()}
                for idx, v in g_in:
                    want_g[idx] = np.array(v) if want_g.get(idx) is None else want_g[idx] + np.array(v)
                want_h = {kk: np.array(v) for kk, v in view_h.items()}
                for (a, b), m in h_in:
                    key, blk = ((a, b), np.array(m)) if a <= b else ((b, a), np.transpose(np.array(m)))
                    want_h[key] = blk if key not in want_h else want_h[key] + blk
                k.check(sorted(acc.gradient.keys()) == sorted(list(want_g) + [77]), "gradient keys == old keys + incoming keys", sorted(acc.gradient.keys()))
                k.check(sorted(acc.hessian.keys()) == sorted(list(want_h) + [(77, 99)]), "Hessian keys == old keys + normalised incoming keys", sorted(acc.hessian.keys()))
                k.check(all(a <= b for a, b in acc.hessian.keys()), "every Hessian key satisfies i <= j")
                for idx, v in want_g.items():
                    if idx in acc.gradient:
                        k.eq(acc.gradient[idx], v, "G'[%d] == G[%d] + incoming" % (idx, idx))
                for kk, v in want_h.items():
                    if kk in acc.hessian:
                        k.eq(acc.hessian[kk], v, "Hu'[%r] == Hu[%r] + incoming (transposed when reported high-first)" % (kk, kk))
                k.same(acc.gradient[77], sg, "untouched gradient key unchanged")
                k.same(acc.hessian[(77, 99)], sh, "untouched Hessian key unchanged")
            obs.append(Ob("C03/internal/_Chi2GradientHessian.update/order=%s/prior=%s" % ("-".join(map(str, order)), prior), upd, tier="internal",
                          funcs=["graphslam.graph._Chi2GradientHessian.update", "graphslam.graph._Chi2GradientHessian.DefaultArray.__iadd__"]))

    # ---- internal: the fill loops of Graph._calc_chi2_gradient_hessian for an ARBITRARY accumulator view (the fold is cut at the
    #      contract of update: functools.reduce in graph.py is replaced by a stub that returns an accumulator holding symbolic blocks
    #      for a chosen key set).  Result: _gradient is the dense scatter of G with fixed blocks zero; _hessian is the symmetric
    #      scatter of Hu with, for fixed vertices, zero rows/columns and a non-singular diagonal block forcing dx = 0.
    import itertools as _it
    fill_types = [("SE2", "R2", "SE3"), ("R3", "SE2", "R2")]
    for types in fill_types:
        for fixed in _it.product([False, True], repeat=3):
            for keyset in ("all", "sparse"):
                if tier == "quick" and keyset == "sparse" and sum(fixed) not in (0, 1):
                    continue
                def fill(k, types=types, fixed=fixed, keyset=keyset):
                    r_ = k.r
                    np = k.np
                    vs = [r_.Vertex(i, k.pose(T, "v%d" % i), fixed=f) for i, (T, f) in enumerate(zip(types, fixed))]
                    g = r_.Graph([], vs)
                    dims = [POSE_C[T] for T in types]
                    offs = [sum(dims[:i]) for i in range(3)]
                    N = sum(dims)
                    k.check([v.gradient_index for v in vs] == offs and g._len_gradient == N, "gradient_index = prefix sums of the compact dimensions")
                    g._fixed_gradient_indices = {offs[i] for i in range(3) if fixed[i]}
                    acc = r_.graph._Chi2GradientHessian()
                    acc.chi2 = k.real("chi2")
                    G, Hu = {}, {}
                    pairs = [(i, j) for i in range(3) for j in range(i, 3)]
                    for n_, i in enumerate(range(3)):
                        if keyset == "all" or n_ != 1:
                            G[i] = k.vec("G%d_" % i, dims[i])
                            acc.gradient[offs[i]] = np.array(G[i])
                    for n_, (i, j) in enumerate(pairs):
                        if keyset == "all" or n_ % 2 == 0:
                            Hu[(i, j)] = k.matrix("H%d%d" % (i, j), dims[i], dims[j])
                            acc.hessian[(offs[i], offs[j])] = np.array(Hu[(i, j)])
                    with common.patched(r_.graph, reduce=lambda f, it, init: acc):
                        g._calc_chi2_gradient_hessian()
                    k.same(g._chi2, acc.chi2, "_chi2 is the accumulated chi2")
                    grad, H = k.dense(g._gradient), k.dense(g._hessian)
                    k.check(tuple(grad.shape) == (N,) and tuple(H.shape) == (N, N), "dense shapes")
                    want_g = [0] * N
                    for i, v in G.items():
                        if not fixed[i]:
                            for c in range(dims[i]):
                                want_g[offs[i] + c] = v[c]
                    k.eq([grad[i] for i in range(N)], want_g, "_gradient == scatter of G with fixed blocks zero")
                    want_H = [[0] * N for _ in range(N)]
                    for (i, j), M in Hu.items():
                        if fixed[i] or fixed[j]:
                            continue
                        for a in range(dims[i]):
                            for b in range(dims[j]):
                                want_H[offs[i] + a][offs[j] + b] = M[a, b]
                                if i != j:
                                    want_H[offs[j] + b][offs[i] + a] = M[a, b]
                    free_idx = [offs[i] + c for i in range(3) if not fixed[i] for c in range(dims[i])]
                    k.eq([[H[a, b] for b in free_idx] for a in free_idx], [[want_H[a][b] for b in free_idx] for a in free_idx], "_hessian == symmetric scatter of Hu on free rows/columns")
                    # fixed vertices: rows and columns decoupled from the free unknowns, own block forces dx = 0 (any non-singular block does)
                    for i in range(3):
                        if fixed[i]:
                            idx = [offs[i] + c for c in range(dims[i])]
                            others = [a for a in range(N) if a not in idx]
                            k.eq([[H[a, b] for b in others] for a in idx], [[0] * len(others) for _ in idx], "fixed vertex %d: rows decoupled" % i)
                            k.eq([[H[b, a] for b in others] for a in idx], [[0] * len(others) for _ in idx], "fixed vertex %d: columns decoupled" % i)
                            A = [[H[a, b] for b in idx] for a in idx]
                            if k.mode == "sym":
                                dxs = [k.real("dxf%d" % c) for c in range(dims[i])]
                                k.system_equiv(A, [0] * len(idx), [[(1 if a == b else 0) for b in range(len(idx))] for a in range(len(idx))], [0] * len(idx), dxs,
                                               "fixed vertex %d: its block forces dx = 0" % i, fixed_idx=list(range(len(idx))))
                            else:
                                import numpy
                                k.check(numpy.linalg.cond(numpy.array(A, dtype=float)) < 1e8, "fixed vertex %d: its block forces dx = 0 (non-singular)" % i)
                obs.append(Ob("C03/internal/Graph._calc_chi2_gradient_hessian/fill/%s/fixed=%s/%s" % ("-".join(types), "".join("1" if f else "0" for f in fixed), keyset),
                              fill, tier="internal", scope="shape-bounded", bound="3 vertices %s" % "-".join(types),
                              funcs=["graphslam.graph.Graph._calc_chi2_gradient_hessian", "graphslam.graph.Graph._initialize"]))

    # ---- internal: Graph._initialize assigns prefix sums for longer vertex lists
    def prefix(k):
        r_ = k.r
        import random as _r
        rnd = _r.Random(5)
        for n in (1, 2, 4, 7, 12):
            types = [rnd.choice(["R2", "R3", "SE2", "SE3"]) for _ in range(n)]
            vs = [r_.Vertex(100 - 7 * i, k.pose(T, "p%d_%d" % (n, i))) for i, T in enumerate(types)]
            g = r_.Graph([], vs)
            acc = 0
            want = []
            for T in types:
                want.append(acc)
                acc += POSE_C[T]
            k.check([v.gradient_index for v in vs] == want and g._len_gradient == acc, "prefix sums for %d vertices" % n, [v.gradient_index for v in vs])
    obs.append(Ob("C03/internal/Graph._initialize/gradient-index-prefix-sums", prefix, tier="internal", funcs=["graphslam.graph.Graph._initialize"]))

    # ---- internal: entry-wise gradient / Hessian of Graph._calc_chi2_gradient_hessian against the spec
    for shape in [s for s in graphs.family(tier, seed, well_posed_only=True) if s["pattern"] in ("par-ba-ab", "star-rev", "ternary-perm", "unary")][:24]:
        def dense(k, shape=shape):
            ghost = common.Ghost()
            g, vs, es = graphs.build(k, shape, ghost)
            dims = [POSE_C[T] for _, T, _ in shape["vertices"]]
            H, b, offsets = gn.assemble(dims, graphs.spec_inputs(k, shape, vs, es))
            fixed_pos = [i for i, (_, _, f) in enumerate(shape["vertices"]) if f]
            g._fixed_gradient_indices = {vs[p].gradient_index for p in fixed_pos}
            k.check([v.gradient_index for v in vs] == offsets, "gradient_index = prefix sums of compact dimensions", [v.gradient_index for v in vs])
            g._calc_chi2_gradient_hessian()
            N = sum(dims)
            fixed_idx = {offsets[p] + i for p in fixed_pos for i in range(dims[p])}
            Hc, bc = k.dense(g._hessian), k.dense(g._gradient)
            k.eq([bc[i] for i in range(N)], [0 if i in fixed_idx else b[i] for i in range(N)], "_gradient == b with fixed blocks zero")
            want = [[(H[i][j] if (i not in fixed_idx and j not in fixed_idx) else 0) for j in range(N)] for i in range(N)]
            got = [[(Hc[i, j] if (i not in fixed_idx and j not in fixed_idx) else 0) for j in range(N)] for i in range(N)]
            k.eq(got, want, "_hessian == H on free rows and columns")
        obs.append(Ob("C03/internal/Graph._calc_chi2_gradient_hessian/%s" % shape["name"], dense, tier="internal", scope="shape-bounded",
                      bound="shape " + shape["name"], funcs=["graphslam.graph.Graph._calc_chi2_gradient_hessian", "graphslam.graph._Chi2GradientHessian.update"]))

    # canaries: a deliberately wrong spec (one transposed block / a dropped edge) must be refuted
    def canary_drop(k):
        shape = {"vertices": [(0, "SE2", False), (1, "R2", True)], "edges": [("cut", (0, 1), 2), ("cut", (1, 0), 2)], "fix_first_pose": False, "idset": 0}
        ghost = common.Ghost()
        g, vs, es = graphs.build(k, shape, ghost)
        dims = [3, 2]
        H, b, offsets = gn.assemble(dims, graphs.spec_inputs(k, shape, vs, es)[:1])      # second edge forgotten
        A_spec, rhs_spec, fixed_idx = gn.reduced_system(H, b, offsets, dims, [1])
        with common.counting_spsolve(k, ghost):
            g.optimize(tol=k.nonneg("tol"), max_iter=1, fix_first_pose=False, verbose=False)
        A, rhs, dx = ghost.solver_calls[0]
        A, rhs = k.dense(A), k.dense(rhs)
        k.system_equiv([[A[i, j] for j in range(5)] for i in range(5)], [rhs[i] for i in range(5)], A_spec, rhs_spec, [dx[i] for i in range(5)],
                       "spec with one edge dropped", fixed_idx=fixed_idx)
    obs.append(Ob("C03/canary/spec-drops-an-edge", canary_drop, tier="canary", solver="constrained", light=True))

    def canary_slice(k):
        shape = {"vertices": [(0, "R2", True), (1, "SE2", False), (2, "R2", False)], "edges": [("cut", (0, 1), 2), ("cut", (1, 2), 2)], "fix_first_pose": False, "idset": 0}
        ghost = common.Ghost()
        g, vs, es = graphs.build(k, shape, ghost)
        before = vs[2].pose.copy()
        with common.counting_spsolve(k, ghost):
            g.optimize(tol=k.nonneg("tol"), max_iter=1, fix_first_pose=False, verbose=False)
        dx = ghost.solver_calls[0][2]
        k.eq(vs[2].pose.to_array(), [before[0] + dx[4], before[1] + dx[5]], "wrong slice (off by one)")
    obs.append(Ob("C03/canary/wrong-update-slice", canary_slice, tier="canary", solver="constrained", light=True))
    return obs


META = {
    "bounds": "shape family G3 (gsv/contracts/graphs.py): 2-3 vertices over R2/SE2/R3/SE3 incl. mixed dimensionality, 3 id sets (negative, sparse, > 2^63), single / reversed / all four parallel orders / unary / ternary / chain / star / isolated vertex / empty edge set, every fixed subset x fix_first_pose, plus real odometry+landmark graphs; thorough adds larger type sets and 40 seeded random graphs with <= 6 vertices, <= 8 edges. Numbers are universal in every instance.",
    "assumptions": ["spsolve returns a solution of the system it is given (external, assumed)",
                    "induction from the shape family to all graphs (left fold of update over the edge list; disjoint slices) is written in DESIGN.md, not mechanised",
                    "SE(3) updates with rotational part of norm <= 1 (the clamp branch is proved per pose in C09/C11)"],
}
