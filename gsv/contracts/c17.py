"""C17 -- equals is a sound, total tolerance comparison.

For every ordered pair drawn from: 4 pose types; vertices over them; odometry edges over 4 types; landmark edges over the
4 supported typings (offset id None / int); a custom edge with an array estimate and one with a scalar estimate; graphs
of sizes 0-2.  All numbers and the tolerance (> 0) are symbolic.

  totality        x.equals(y, tol) returns for every pair (never raises);
  discrete part   False whenever classes, ids, sizes, order or array shapes differ;
  band            per compared numeric field with n = |a-b|, n_a = |a|, n_b = |b|:
                    every field  n <= 1/2 tol min(max(n_a,tol), max(n_b,tol))   ==>  equals in both directions
                    some field   n >= 2 tol max(n_a, n_b, tol)                  ==>  unequal in both directions
                  (identical objects are the case n = 0).  Inside the band asymmetry is allowed by the statement.
Any reasonable relative-tolerance formula passes the band; a skipped field, 10*tol or a one-sided check does not.
"""
import itertools

from gsv.ob import Ob, TYPES
from gsv.kernel import POSE_C, POSE_N
from gsv.contracts.c01 import LANDMARK_TYPINGS

FUNCS = ["graphslam.pose.base_pose.BasePose.equals", "graphslam.vertex.Vertex.equals", "graphslam.edge.base_edge.BaseEdge.equals",
         "graphslam.edge.edge_landmark.EdgeLandmark.equals", "graphslam.graph.Graph.equals"]


def custom_classes(k):
    r = k.r

    class ArrayEdge(r.BaseEdge):
        def calc_error(self):
            return k.np.array(self.estimate)

        def is_valid(self):
            return self._is_valid()

    class ScalarEdge(r.BaseEdge):
        def calc_error(self):
            return k.np.array([self.estimate])

        def is_valid(self):
            return self._is_valid()

    class ArrayEdgeSub(ArrayEdge):           # a SUBCLASS with the same data: a different type (e.g. analytic Jacobians added)
        def calc_jacobians(self):
            return []

    class OdometrySub(r.EdgeOdometry):
        pass
    key = "_c17_classes"
    if not hasattr(r, key):
        setattr(r, key, (ArrayEdge, ScalarEdge, ArrayEdgeSub, OdometrySub))
    return getattr(r, key)[:2]


def subclasses(k):
    custom_classes(k)
    return getattr(k.r, "_c17_classes")[2:]


KINDS = (["pose:" + T for T in TYPES] + ["vertex:" + T for T in TYPES] + ["odometry:" + T for T in TYPES]
         + ["landmark:%s-%s" % tl for tl in LANDMARK_TYPINGS] + ["landmark-noid:SE3-R3", "custom:array", "custom:scalar",
            "graph:empty", "graph:1v", "graph:2v1e-SE2", "graph:2v1e-R2", "graph:3v2e-mixed"])


def build(k, kind, px, ids=None):
    """Build an object of the given kind with symbolic numbers named by prefix px.  Returns (object, fields) where
    fields is the list of numeric arrays that a comparison must look at."""
    r = k.r
    np = k.np
    what, _, arg = kind.partition(":")
    if what == "pose":
        p = k.pose(arg, px, unit=False)
        return p, [p.to_array()]
    if what == "vertex":
        p = k.pose(arg, px, unit=False)
        v = r.Vertex((ids or [4])[0], p)
        return v, [p.to_array()]
    if what == "odometry":
        c = POSE_C[arg]
        info = k.sym_matrix(px + ".O", c)
        est = k.pose(arg, px + ".z", unit=False)
        e = r.EdgeOdometry(list(ids or [1, 2]), info, est)
        return e, [np.array(info), est.to_array()]
    if what in ("landmark", "landmark-noid"):
        TP, TL = arg.split("-")
        d = POSE_C[TL]
        info = k.sym_matrix(px + ".O", d)
        est = k.pose(TL, px + ".z", unit=False)
        off = k.pose(TP, px + ".off", unit=False)
        e = r.EdgeLandmark(list(ids or [1, 2]), info, est, off, None if what == "landmark-noid" else 7)
        return e, [np.array(info), est.to_array(), off.to_array()]
    if what == "custom":
        A, S_ = custom_classes(k)
        if arg == "array":
            info = k.sym_matrix(px + ".O", 2)
            est = k.vec(px + ".z", 2)
            return A(list(ids or [1, 2]), info, est), [np.array(info), np.array(est)]
        info = k.sym_matrix(px + ".O", 1)
        est = k.real(px + ".z")
        return S_(list(ids or [1, 2]), info, est), [np.array(info), np.array([est])]
    if what == "graph":
        if arg == "empty":
            return r.Graph([], []), []
        if arg == "1v":
            v, f = build(k, "vertex:SE2", px + ".v0", [0])
            return r.Graph([], [v]), f
        if arg in ("2v1e-SE2", "2v1e-R2"):
            T = arg.split("-")[1]
            v0, f0 = build(k, "vertex:" + T, px + ".v0", [0])
            v1, f1 = build(k, "vertex:" + T, px + ".v1", [1])
            e, fe = build(k, "odometry:" + T, px + ".e0", [0, 1])
            return r.Graph([e], [v0, v1]), fe + f0 + f1
        if arg == "3v2e-mixed":
            v0, f0 = build(k, "vertex:SE2", px + ".v0", [0])
            v1, f1 = build(k, "vertex:R2", px + ".v1", [1])
            v2, f2 = build(k, "vertex:SE2", px + ".v2", [2])
            e0, fe0 = build(k, "odometry:SE2", px + ".e0", [0, 2])
            e1, fe1 = build(k, "landmark:SE2-R2", px + ".e1", [2, 1])
            return r.Graph([e0, e1], [v0, v1, v2]), fe0 + fe1 + f0 + f1 + f2
    raise KeyError(kind)


def norms(k, a, b):
    np = k.np
    return np.linalg.norm(a - b), np.linalg.norm(a), np.linalg.norm(b)


def far_below(k, fields_x, fields_y, tol):
    cond = True
    for a, b in zip(fields_x, fields_y):
        n, na, nb = norms(k, a, b)
        h = tol / 2
        c = ((n <= h * na) | (n <= h * tol)) & ((n <= h * nb) | (n <= h * tol))
        cond = c if cond is True else (cond & c)
    return cond


def far_above(k, fields_x, fields_y, tol):
    cond = False
    for a, b in zip(fields_x, fields_y):
        n, na, nb = norms(k, a, b)
        c = (n >= 2 * tol * na) & (n >= 2 * tol * nb) & (n >= 2 * tol * tol)
        cond = c if cond is False else (cond | c)
    return cond


def neg(k, res):
    if isinstance(res, bool):
        return not res
    if k.mode == "sym":
        return ~res
    return not bool(res)


def obligations(r, tier, seed):
    obs = []
    # ---- same kind: band, identical, ids
    for kind in KINDS:
        if kind == "graph:3v2e-mixed" and tier == "quick":
            continue            # 766 paths, minutes: thorough tier only (the 2-vertex graphs cover the same code in quick)
        def same_kind(k, kind=kind):
            # x and y are both universally quantified and the band hypotheses are symmetric in (x, y), so the
            # statement for x.equals(y) is, by renaming, also the statement for y.equals(x): one direction suffices.
            tol = k.pos("tol")
            x, fx = build(k, kind, "x")
            y, fy = build(k, kind, "y")
            rxy = k.returns(lambda: x.equals(y, tol), "x.equals(y) returns")
            if rxy is None:
                return
            if not fx:
                k.holds(rxy, "empty graphs are equal")
                return
            below = far_below(k, fx, fy, tol)
            above = far_above(k, fx, fy, tol)
            k.implies(below, rxy, "far below the tolerance in every field => equal")
            k.implies(above, neg(k, rxy), "far above the tolerance in some field => unequal")
        obs.append(Ob("C17/same-kind/%s/band" % kind, same_kind, funcs=FUNCS, max_paths=4000, light=True))

        def identical(k, kind=kind):
            tol = k.pos("tol")
            x, _ = build(k, kind, "x")
            k.st_reset = None
            y, _ = build_copy(k, kind, "x")
            res = k.returns(lambda: x.equals(y, tol), "x.equals(copy) returns")
            if res is not None:
                k.holds(res, "an object equals its copy")
            res2 = k.returns(lambda: x.equals(x, tol), "x.equals(x) returns")
            if res2 is not None:
                k.holds(res2, "an object equals itself")
        obs.append(Ob("C17/same-kind/%s/copy" % kind, identical, funcs=FUNCS, light=True))

    # ---- "perturbation magnitudes from 1e-12 to 1e3 times the tolerance in each single component": y is x with ONE component of
    #      ONE field moved by  factor * tol * (1 + |field|)  -- symbolically an instance of the band obligation, numerically the
    #      sampling distribution the property text asks for (and, in the typed-input search, integer-typed x against float y)
    for kind in [kd for kd in KINDS if not kd.startswith("graph")]:
        def perturbed(k, kind=kind):
            np = k.np
            tol = k.pos("tol") / 1000000
            k.assume(tol * 4 < 1, "tolerance below 1/4")
            x, fx = build(k, kind, "x")
            what = kind.partition(":")[0]
            names = {"pose": ["self"], "vertex": ["pose"], "odometry": ["information", "estimate"], "custom": ["information", "estimate"]}.get(what, ["information", "estimate", "offset"])
            for fi, fname in enumerate(names):
                flat_n = len(k.flat(fx[fi])[1])
                for comp in sorted({0, flat_n - 1}):
                    factor = k.real("factor_%d_%d" % (fi, comp))
                    y, fy = build_copy(k, kind, "x")
                    na = np.linalg.norm(fx[fi])
                    delta = factor * tol * (1 + na)
                    bump = np.zeros(flat_n)
                    bump[comp] = delta
                    if fname == "self":
                        y = k.pose_from_raw(kind.partition(":")[2], list(np.array(fy[0]) + bump))
                    elif fname == "pose":
                        y.pose = k.pose_from_raw(kind.partition(":")[2], list(np.array(fy[0]) + bump))
                    else:
                        cur = getattr(y, fname)
                        if hasattr(cur, "to_array"):
                            T = {r_cls: T_ for T_, r_cls in (("R2", k.r.PoseR2), ("R3", k.r.PoseR3), ("SE2", k.r.PoseSE2), ("SE3", k.r.PoseSE3))}[type(cur)]
                            setattr(y, fname, k.pose_from_raw(T, list(np.array(cur.to_array()) + bump)))
                        elif hasattr(cur, "shape") and tuple(cur.shape) != ():
                            setattr(y, fname, np.array(cur) + bump.reshape(tuple(cur.shape)))
                        else:
                            setattr(y, fname, cur + delta)
                    fy = list(fx)
                    fy[fi] = np.array(fx[fi]) + bump.reshape(tuple(np.array(fx[fi]).shape))
                    below, above = far_below(k, fx, fy, tol), far_above(k, fx, fy, tol)
                    for a, b, lab in ((x, y, "x.equals(y)"), (y, x, "y.equals(x)")):
                        fa, fb = (fx, fy) if a is x else (fy, fx)
                        res = k.returns(lambda a=a, b=b: a.equals(b, tol), "%s returns (%s component %d moved)" % (lab, fname, comp))
                        if res is None:
                            continue
                        k.implies(below, res, "%s: %s component %d moved far below the tolerance => equal" % (lab, fname, comp))
                        k.implies(above, neg(k, res), "%s: %s component %d moved far above the tolerance => unequal" % (lab, fname, comp))
        # numeric interpretation only: symbolically this is an instance of C17/same-kind/<kind>/band (proved for all x, y)
        obs.append(Ob("C17/same-kind/%s/single-component-perturbation" % kind, perturbed, funcs=FUNCS, numeric_only=True, num_points=(8 if tier == "quick" else 40)))

    # ---- ids differ
    for kind in ["vertex:SE2", "odometry:SE3", "landmark:SE2-R2", "landmark:SE3-R3", "custom:array", "custom:scalar"]:
        def ids_differ(k, kind=kind):
            tol = k.pos("tol")
            # falsy ids (0) are deliberately among the values: 0 is an id like any other, None is "no id"
            pairs = [([4], [5]), ([0], [1]), ([0], [-1])] if kind.startswith("vertex") else \
                [([1, 2], [9, 2]), ([1, 2], [1, 9]), ([1, 2], [9, 8]), ([1, 2], [2, 1]), ([0, 2], [1, 2]), ([3, 0], [3, 1]), ([0, 1], [1, 0])]
            for base, ids in pairs:
                x, _ = build(k, kind, "x", base)
                y, _ = build_copy(k, kind, "x", ids)
                for a, b, lab in ((x, y, "xy"), (y, x, "yx")):
                    res = k.returns(lambda a=a, b=b: a.equals(b, tol), "ids %r vs %r %s returns" % (base, ids, lab))
                    if res is not None:
                        k.holds(neg(k, res), "ids %r vs %r differ => unequal (%s)" % (base, ids, lab))
            if kind.startswith("landmark"):
                for ia, ib in ((7, 8), (7, None), (0, None), (0, 1), (None, 1), (0, -1)):
                    x, _ = build(k, kind, "x", [1, 2])
                    y, _ = build_copy(k, kind, "x", [1, 2])
                    x.offset_id, y.offset_id = ia, ib
                    k.holds(neg(k, x.equals(y, tol)), "offset ids %r vs %r => unequal" % (ia, ib))
                    k.holds(neg(k, y.equals(x, tol)), "offset ids %r vs %r => unequal (reverse)" % (ia, ib))
                for same in (0, None, 7):
                    x, _ = build(k, kind, "x", [1, 2])
                    y, _ = build_copy(k, kind, "x", [1, 2])
                    x.offset_id = y.offset_id = same
                    k.holds(x.equals(y, tol), "same offset id %r (and same everything else) => equal" % (same,))
        obs.append(Ob("C17/ids-differ/%s" % kind, ids_differ, funcs=FUNCS, light=True))

    # ---- vertex count with 3 ids vs 2 ids, graph sizes / order
    def graph_structure(k):
        r_ = k.r
        tol = k.pos("tol")
        g2, _ = build(k, "graph:2v1e-SE2", "x")
        vs = list(g2._vertices)
        es = list(g2._edges)
        variants = {
            "fewer vertices": r_.Graph([], vs[:1]),
            "no edges": r_.Graph([], list(vs)),
            "vertex order swapped": r_.Graph(list(es), vs[::-1]),
            "extra vertex": r_.Graph(list(es), vs + [r_.Vertex(5, k.pose("SE2", "extra"))]),
            "extra edge": r_.Graph(es + [build_copy(k, "odometry:SE2", "x.e0", [0, 1])[0]], list(vs)),
        }
        for name, other in variants.items():
            for a, b, lab in ((g2, other, "xy"), (other, g2, "yx")):
                res = k.returns(lambda a=a, b=b: a.equals(b, tol), "%s %s returns" % (name, lab))
                if res is not None:
                    k.holds(neg(k, res), "%s => unequal (%s)" % (name, lab))
        A, _S = custom_classes(k)
        e3 = A([1, 2, 3], k.np.eye(2), k.np.array([0.0, 0.0]))
        e2 = A([1, 2], k.np.eye(2), k.np.array([0.0, 0.0]))
        k.holds(neg(k, e3.equals(e2, tol)), "3 ids vs 2 ids => unequal")
        k.holds(neg(k, e2.equals(e3, tol)), "2 ids vs 3 ids => unequal")
        e2b = A([1, 2], k.np.eye(3), k.np.array([0.0, 0.0]))
        k.holds(neg(k, k.returns(lambda: e2.equals(e2b, tol), "information shapes differ returns")), "information shapes differ => unequal")
    obs.append(Ob("C17/structure/graph-sizes-order-and-id-counts", graph_structure, funcs=FUNCS, light=True))

    # ---- different kinds: never raises, always False
    nongraph = [kd for kd in KINDS if not kd.startswith("graph")]
    groups = {"pose": [kd for kd in KINDS if kd.startswith("pose")], "vertex": [kd for kd in KINDS if kd.startswith("vertex")],
              "edge": [kd for kd in KINDS if kd.split(":")[0] in ("odometry", "landmark", "landmark-noid", "custom")],
              "graph": [kd for kd in KINDS if kd.startswith("graph")]}
    for gname, members in groups.items():
        for ka, kb in itertools.permutations(members, 2):
            if gname == "graph" and {ka, kb} == {"graph:2v1e-SE2", "graph:2v1e-R2"} and False:
                continue
            if ka.startswith("landmark") and kb.startswith("landmark") and ka.split(":")[1] == kb.split(":")[1]:
                continue        # same typing, only the offset id differs: covered by ids-differ
            def mixed(k, ka=ka, kb=kb):
                tol = k.pos("tol")
                x, _ = build(k, ka, "x")
                y, _ = build(k, kb, "y")
                res = k.returns(lambda: x.equals(y, tol), "returns (never raises)")
                if res is not None:
                    k.holds(neg(k, res), "objects of different type/shape are unequal")
            obs.append(Ob("C17/mixed/%s-vs-%s" % (ka, kb), mixed, funcs=FUNCS, light=True))

    # ---- internal: the exact formula of BasePose.equals (CONTRACT-DRIFT if another reasonable tolerance formula replaces it)
    for T in TYPES:
        def exact(k, T=T):
            tol = k.pos("tol")
            x, fx = build(k, "pose:" + T, "x")
            y, fy = build(k, "pose:" + T, "y")
            res = x.equals(y, tol)
            n, nx, _ = norms(k, fx[0], fy[0])
            spec = ((nx >= tol) & (n < tol * nx)) | ((nx < tol) & (n < tol * tol))
            k.implies(res, spec, "equals => |x-y| / max(|x|, tol) < tol")
            k.implies(spec, res, "|x-y| / max(|x|, tol) < tol => equals")
        obs.append(Ob("C17/internal/BasePose.equals-exact-formula/%s" % T, exact, tier="internal", funcs=FUNCS[:1], light=True))

    # ---- landmark edges that differ ONLY in the type of the offset (identical numbers: an R^3 point and an SE(2) pose are both
    #      three numbers): different types, unequal in both directions
    def offset_types(k):
        r_ = k.r
        tol = k.pos("tol")
        x, y, t = k.real("ox"), k.real("oy"), k.small("ot", 1)
        info, est = k.sym_matrix("O", 2), k.pose("R2", "z")
        a = r_.EdgeLandmark([1, 2], info, est, r_.PoseSE2([x, y], t), 0)
        b = r_.EdgeLandmark([1, 2], k.np.array(info), est.copy(), r_.PoseR3([x, y, t]), 0)
        c = r_.EdgeLandmark([1, 2], k.np.array(info), est.copy(), r_.PoseR2([x, y]), 0)
        for p_, q_, lab in ((a, b, "SE2 offset vs R3 offset"), (b, a, "R3 offset vs SE2 offset"), (a, c, "SE2 offset vs R2 offset"), (c, a, "R2 offset vs SE2 offset")):
            res = k.returns(lambda p_=p_, q_=q_: p_.equals(q_, tol), "%s returns" % lab)
            if res is not None:
                k.holds(neg(k, res), "%s: different offset types => unequal" % lab)
    obs.append(Ob("C17/structure/landmark-edges-differing-in-offset-type-only", offset_types, funcs=FUNCS, light=True))

    # ---- poses that are VIEWS of one array (columns of a point array: PoseR2 / PoseR3 take a float64 array without copying): what
    #      they hold decides, not where it is stored
    for T in ("R2", "R3"):
        def views(k, T=T):
            np = k.np
            n = POSE_C[T]
            tol = k.pos("tol") / 1000000
            k.assume(tol * 4 < 1, "tolerance below 1/4")
            A = k.matrix("A", n, 3)                  # three points as the columns of one array
            cls = k.pose_cls(T)
            p, q, w = cls(A[:, 0]), cls(A[:, 1]), cls(A[:, 0])
            fp, fq = np.array(A[:, 0]), np.array(A[:, 1])
            below, above = far_below(k, [fp], [fq], tol), far_above(k, [fp], [fq], tol)
            for a, b, lab in ((p, q, "p.equals(q)"), (q, p, "q.equals(p)")):
                res = k.returns(lambda a=a, b=b: a.equals(b, tol), lab + " returns")
                if res is not None:
                    k.implies(above, neg(k, res), lab + ": columns far apart => unequal, although both are views of one array")
                    k.implies(below, res, lab + ": columns far below the tolerance apart => equal")
            same = k.returns(lambda: p.equals(w, tol), "a pose equals another view of the same column")
            if same is not None:
                k.holds(same, "two views of the same column are equal")
            v1, v2 = k.r.Vertex(1, p), k.r.Vertex(1, q)
            res = k.returns(lambda: v1.equals(v2, tol), "vertices on views return")
            if res is not None:
                k.implies(above, neg(k, res), "vertices whose poses are far-apart columns of one array => unequal")
        obs.append(Ob("C17/structure/poses-that-are-views-of-one-array/%s" % T, views, funcs=FUNCS, light=True))

    # ---- an edge versus an edge of a SUBCLASS of its class with identical data: different types, unequal in BOTH directions
    def subclass_pairs(k):
        r_ = k.r
        tol = k.pos("tol")
        A, _S = custom_classes(k)
        ASub, OSub = subclasses(k)
        info, est = k.sym_matrix("O", 2), k.vec("z", 2)
        a, b = A([1, 2], info, est), ASub([1, 2], k.np.array(info), k.np.array(est))
        o = r_.EdgeOdometry([1, 2], k.sym_matrix("P", 3), k.pose("SE2", "m"))
        os_ = OSub([1, 2], k.sym_matrix("P", 3), k.pose("SE2", "m"))
        for x, y, name in ((a, b, "custom edge vs its subclass"), (o, os_, "EdgeOdometry vs a subclass")):
            for p_, q_, lab in ((x, y, "xy"), (y, x, "yx")):
                res = k.returns(lambda p_=p_, q_=q_: p_.equals(q_, tol), "%s (%s) returns" % (name, lab))
                if res is not None:
                    k.holds(neg(k, res), "%s: different types => unequal (%s)" % (name, lab))
        ga = r_.Graph([o], [r_.Vertex(1, k.pose("SE2", "v1")), r_.Vertex(2, k.pose("SE2", "v2"))])
        gb = r_.Graph([os_], [r_.Vertex(1, k.pose("SE2", "v1")), r_.Vertex(2, k.pose("SE2", "v2"))])
        k.holds(neg(k, ga.equals(gb, tol)), "graphs differing only in an edge's type => unequal")
        k.holds(neg(k, gb.equals(ga, tol)), "graphs differing only in an edge's type => unequal (reverse)")
    obs.append(Ob("C17/structure/edge-versus-subclass-edge", subclass_pairs, funcs=FUNCS, light=True))

    # canaries
    def canary_loose(k):
        tol = k.pos("tol")
        x, fx = build(k, "pose:R2", "x")
        y, fy = build(k, "pose:R2", "y")
        n, na, nb = norms(k, fx[0], fy[0])
        k.implies((n >= tol * tol / 4), neg(k, x.equals(y, tol)), "far-above threshold set far too low")
    obs.append(Ob("C17/canary/band-too-tight", canary_loose, tier="canary"))

    def canary_ids(k):
        tol = k.pos("tol")
        x, _ = build(k, "vertex:R2", "x", [1])
        y, _ = build_copy(k, "vertex:R2", "x", [2])
        k.holds(x.equals(y, tol), "different ids compare equal")
    obs.append(Ob("C17/canary/ids-ignored", canary_ids, tier="canary"))
    return obs


def build_copy(k, kind, px, ids=None):
    """A second object with the SAME symbolic numbers (kernel inputs are memoised by name)."""
    return build(k, kind, px, ids)


META = {
    "bounds": "pairs over a stated family of %d object kinds (all ordered mixed pairs within poses / vertices / edges / graphs); graphs of size 0-3; numbers and tol universal" % len(KINDS),
    "assumptions": ["'well-formed objects' = objects of the listed kinds with finite numbers; tol > 0"],
}
