"""C14 -- .g2o import is faithful to the file.

Oracle: gsv.specs.g2o (the grammar table).  Lines are GENERATED from the grammar with opaque number tokens (symbolically: a
token reads back as the identical symbol, so "carries exactly the numbers on that line" is syntactic identity; numerically:
varied exact float spellings).  Files mix all ten tags and a registered custom edge type; obligations per file layout:

  objects     exactly one object per supported line, in file order, in the right list, of the right class, with the ids on
              the line
  fields      every field is the identical number of the corresponding token; the SE(2) angle is stored wrapped (congruent,
              in range); the EDGE_SE3:QUAT quaternion is stored normalised (unit, w >= 0, same rotation) -- the loader's
              canonical forms
  information the symmetric expansion of the row-major upper triangle
  parameters  a landmark edge's offset IS the value object of the parameter with that id; parameters are kept by key
  junk        blank and unrecognised lines change nothing else; an unrecognised line logs a warning naming it
  loaders     load_g2o, load_g2o_r2/r3/se2/se3 return graphs equal field by field to Graph.from_g2o
Lexical variation (separators ' ', '  ', ' \\t '; line ends \\n, \\r\\n, none at EOF; junk at every position; several line
orders) is a stated bound.
"""
import itertools
import logging
import os
import tempfile

from gsv.ob import Ob
from gsv.specs import g2o as G
from gsv.specs import lie

FUNCS = ["graphslam.graph.Graph.from_g2o", "graphslam.vertex.Vertex.from_g2o", "graphslam.edge.edge_odometry.EdgeOdometry.from_g2o",
         "graphslam.edge.edge_landmark.EdgeLandmark.from_g2o", "graphslam.g2o_parameters.G2OParameterSE2Offset.from_g2o",
         "graphslam.g2o_parameters.G2OParameterSE3Offset.from_g2o", "graphslam.util.upper_triangular_matrix_to_full_matrix", "graphslam.load.load_g2o"]

JUNK = ["", "   ", "# a comment", "FIX 0", "VERTEX_SE2x 1 2 3 4", "EDGE_SE2_XYZ 1 2 3", "vertex_se2 1 0 0 0",
        # junk whose FIRST TOKEN is a supported keyword (bare tag, tag followed by a TAB): still unrecognised, and it must not
        # affect the well-formed lines of that keyword that follow
        "VERTEX_SE2", "EDGE_SE2\t1 2 3", "EDGE_SE3:QUAT", "PARAMS_SE3OFFSET\t9", "EDGE_DISTANCE"]


def num(k, s):
    """float() for contract-defined custom edge parsers: token-aware under the symbolic interpretation."""
    if k.mode == "sym":
        from gsv.engine import tokens
        return tokens.sym_float(s)
    return float(s)


def custom_edge_type(k):
    r = k.r
    key = "_c14_custom"
    if hasattr(r, key):
        return getattr(r, key)

    class DistanceEdge(r.BaseEdge):
        def calc_error(self):
            return k.np.array([k.np.linalg.norm((self.vertices[0].pose - self.vertices[1].pose).position) - self.estimate])

        def is_valid(self):
            return self._is_valid()

        def to_g2o(self):
            return "EDGE_DISTANCE {} {} {} {}\n".format(self.vertex_ids[0], self.vertex_ids[1], self.estimate, self.information[0][0])

        @classmethod
        def from_g2o(cls, line, g2o_params_or_none=None):
            if line.startswith("EDGE_DISTANCE "):
                f = line.split()
                return cls([int(f[1]), int(f[2])], k.np.array([[num(DistanceEdge._k, f[4])]]), num(DistanceEdge._k, f[3]))
            return None
    DistanceEdge._k = k
    setattr(r, key, DistanceEdge)
    return DistanceEdge


class Line:
    def __init__(self, tag, ids, par, values, texts):
        self.tag, self.ids, self.par, self.values, self.texts = tag, ids, par, values, texts

    def text(self, sep=" "):
        parts = [self.tag] + [str(i) for i in self.ids] + ([str(self.par)] if self.par is not None else []) + list(self.texts)
        return sep.join(parts)


def gen_line(k, tag, ids, name, par=None, style=0):
    n = 2 if tag == "EDGE_DISTANCE" else G.n_values(tag)
    vals, texts = [], []
    for i in range(n):
        v, t = k.number_token("%s_%d" % (name, i), style + i)
        vals.append(v)
        texts.append(t)
    if tag == "EDGE_SE3:QUAT":
        k.assume(lie.norm2(vals[3:7]) > 0, "well-formed file: the quaternion on an EDGE_SE3:QUAT line is not zero")
    return Line(tag, ids, par, vals, texts)


# ids that no float64 holds (an id is an integer of any size: GTSAM symbol keys, nanosecond time stamps), next to small, zero
# and negative ones; every tag gets at least one of them
ID_XY = 2 ** 53 + 1
ID_XYZ = -(2 ** 60) - 3
ID_SE2 = (ord("x") << 56) | 12345
ID_SE3 = 2 ** 63 + 1
ID_PAR = 2 ** 54 + 1


def standard_lines(k, style=0):
    """One line of every tag (two where an edge needs two vertices of a type), consistent ids; parameters first."""
    L = []
    L.append(gen_line(k, "PARAMS_SE3OFFSET", [ID_PAR], "par3", style=style))
    L.append(gen_line(k, "PARAMS_SE2OFFSET", [0], "par2", style=style))
    L.append(gen_line(k, "VERTEX_SE2", [ID_SE2], "v10", style=style))
    L.append(gen_line(k, "VERTEX_SE2", [-4], "vm4", style=style))
    L.append(gen_line(k, "VERTEX_XY", [ID_XY], "v7", style=style))
    L.append(gen_line(k, "VERTEX_SE3:QUAT", [ID_SE3], "vbig", style=style))
    L.append(gen_line(k, "VERTEX_SE3:QUAT", [0], "v0", style=style))
    L.append(gen_line(k, "VERTEX_TRACKXYZ", [ID_XYZ], "v5", style=style))
    L.append(gen_line(k, "EDGE_SE2", [-4, ID_SE2], "e0", style=style))
    L.append(gen_line(k, "EDGE_SE2_XY", [ID_SE2, ID_XY], "e1", style=style))
    L.append(gen_line(k, "EDGE_SE3:QUAT", [0, ID_SE3], "e2", style=style))
    L.append(gen_line(k, "EDGE_SE3_TRACKXYZ", [ID_SE3, ID_XYZ], "e3", par=ID_PAR, style=style))
    L.append(gen_line(k, "EDGE_DISTANCE", [ID_SE2, -4], "e4", style=style))
    return L


def write_file(lines_text, eol="\n", last_eol=True):
    fd, path = tempfile.mkstemp(prefix="gsv-c14-", suffix=".g2o")
    body = eol.join(lines_text) + (eol if last_eol else "")
    with os.fdopen(fd, "w", newline="") as f:
        f.write(body)
    return path


class Capture(logging.Handler):
    def __init__(self):
        super().__init__(level=logging.WARNING)
        self.records = []

    def emit(self, record):
        self.records.append(record.getMessage())


def load(k, path, via=None):
    r = k.r
    k.install_tokens()
    cap = Capture()
    lg = logging.getLogger("graphslam.graph")
    lg.addHandler(cap)
    old = lg.propagate
    lg.propagate = False
    lg2 = logging.getLogger("graphslam.load")
    old2 = lg2.propagate
    lg2.propagate = False
    lg2.addHandler(logging.NullHandler())
    try:
        if via is None:
            g = r.Graph.from_g2o(path, custom_edge_types=[custom_edge_type(k)])
        else:
            g = via(path)
    finally:
        lg.removeHandler(cap)
        lg.propagate = old
        lg2.propagate = old2
    return g, cap.records


def check_vertex(k, v, line, label):
    r = k.r
    T = G.POSE_OF_VERTEX[line.tag]
    k.check(type(v) is r.Vertex and v.id == line.ids[0], label + ": a Vertex with the id on the line", (type(v).__name__, getattr(v, "id", None)))
    k.check(type(v.pose) is k.pose_cls(T), label + ": pose class", type(v.pose).__name__)
    vals = line.values
    if T == "SE2":
        k.same([v.pose[0], v.pose[1]], vals[:2], label + ": position fields are the numbers on the line")
        k.eq([k.np.cos(v.pose[2]), k.np.sin(v.pose[2])], [k.np.cos(vals[2]), k.np.sin(vals[2])], label + ": angle congruent to the number on the line")
        k.holds((v.pose[2] >= -k.np.pi) & (v.pose[2] <= k.np.pi), label + ": angle stored in [-pi, pi]")
    else:
        k.same([v.pose[i] for i in range(len(vals))], vals, label + ": pose fields are the numbers on the line")
    k.check(v.fixed is False, label + ": not fixed")


def check_info(k, e, line, nmeas, dim, label):
    want = G.expand_upper(line.values[nmeas:], dim)
    k.check(tuple(e.information.shape) == (dim, dim), label + ": information shape")
    k.same([[e.information[i, j] for j in range(dim)] for i in range(dim)], want, label + ": information is the symmetric expansion of the upper triangle")


def check_edge(k, e, line, params, label):
    r = k.r
    np = k.np
    if line.tag == "EDGE_DISTANCE":
        k.check(type(e) is custom_edge_type(k) and list(e.vertex_ids) == list(line.ids), label + ": custom edge with the ids on the line")
        k.same([e.estimate, e.information[0, 0]], line.values, label + ": custom edge fields")
        return
    kind, T = G.EDGE_TYPING[line.tag]
    _, nid, haspar, nmeas, dim = G.GRAMMAR[line.tag]
    cls = r.EdgeOdometry if kind == "odometry" else r.EdgeLandmark
    k.check(type(e) is cls and list(e.vertex_ids) == list(line.ids), label + ": edge class and ids", (type(e).__name__, list(e.vertex_ids)))
    k.check(type(e.estimate) is k.pose_cls(T), label + ": measurement class", type(e.estimate).__name__)
    m = line.values[:nmeas]
    if line.tag == "EDGE_SE2":
        k.same([e.estimate[0], e.estimate[1]], m[:2], label + ": measurement translation")
        k.eq([np.cos(e.estimate[2]), np.sin(e.estimate[2])], [np.cos(m[2]), np.sin(m[2])], label + ": measurement angle congruent")
        k.holds((e.estimate[2] >= -np.pi) & (e.estimate[2] <= np.pi), label + ": measurement angle in range")
    elif line.tag == "EDGE_SE3:QUAT":
        k.same([e.estimate[i] for i in range(3)], m[:3], label + ": measurement translation")
        q = [e.estimate[i] for i in range(3, 7)]
        qn2 = lie.norm2(m[3:7])
        k.eq(lie.norm2(q), 1, label + ": stored quaternion has unit norm")
        k.holds(q[3] >= 0, label + ": stored quaternion has w >= 0")
        I = lie.identity_matrix(np, 3)
        k.eq((lie.rotmat(np, q) - I) * qn2, lie.rotmat(np, m[3:7]) - I, label + ": stored quaternion is the same rotation as the one on the line")
    else:
        k.same([e.estimate[i] for i in range(nmeas)], m, label + ": measurement fields")
    check_info(k, e, line, nmeas, dim, label)
    if line.tag == "EDGE_SE3_TRACKXYZ":
        key = ("PARAMS_SE3OFFSET", line.par)
        k.check(e.offset_id == line.par, label + ": offset id", e.offset_id)
        k.check(key in params and e.offset is params[key].value, label + ": offset IS the value of the parameter with that id")
    if line.tag == "EDGE_SE2_XY":
        k.check(type(e.offset) is r.PoseSE2, label + ": identity SE2 offset class")
        k.eq(lie.hom(np, "SE2", e.offset), lie.identity_matrix(np, 3), label + ": offset is the identity")


def check_param(k, p, line, label):
    r = k.r
    T = "SE2" if line.tag == "PARAMS_SE2OFFSET" else "SE3"
    k.check(p.key == (line.tag, line.ids[0]), label + ": parameter key", p.key)
    k.check(type(p.value) is k.pose_cls(T), label + ": parameter value class")
    if T == "SE2":
        k.same([p.value[0], p.value[1]], line.values[:2], label + ": parameter translation")
        k.eq([k.np.cos(p.value[2]), k.np.sin(p.value[2])], [k.np.cos(line.values[2]), k.np.sin(line.values[2])], label + ": parameter angle congruent")
    else:
        k.same([p.value[i] for i in range(7)], line.values, label + ": parameter fields as written")


def check_graph(k, g, lines, label=""):
    vlines = [l for l in lines if l.tag.startswith("VERTEX")]
    elines = [l for l in lines if l.tag.startswith("EDGE")]
    plines = [l for l in lines if l.tag.startswith("PARAMS")]
    k.check(len(g._vertices) == len(vlines), label + "one vertex per vertex line", (len(g._vertices), len(vlines)))
    k.check(len(g._edges) == len(elines), label + "one edge per edge line", (len(g._edges), len(elines)))
    k.check(g._g2o_params is not None and len(g._g2o_params) == len(plines), label + "one parameter per parameter line")
    def guarded(fn, *a):
        # a mis-parsed object can have any shape: inspecting it must not crash the check
        from gsv.engine_common import is_control_exception
        try:
            fn(*a)
        except Exception as e:      # noqa: BLE001
            if is_control_exception(e):
                raise
            k.check(False, a[-1] + ": object has the expected structure", "%s: %s" % (type(e).__name__, e))
    for v, l in zip(g._vertices, vlines):
        guarded(check_vertex, k, v, l, label + "%s %s" % (l.tag, l.ids[0]))
    for e, l in zip(g._edges, elines):
        guarded(check_edge, k, e, l, g._g2o_params or {}, label + "%s %s" % (l.tag, "-".join(map(str, l.ids))))
    for l in plines:
        key = (l.tag, l.ids[0])
        k.check(key in (g._g2o_params or {}), label + "%s %s kept by key" % key)
        if key in (g._g2o_params or {}):
            check_param(k, g._g2o_params[key], l, label + "%s %s" % key)
    by_id = {v.id: v for v in g._vertices}
    for e in g._edges:
        k.check(e.vertices is not None and all(a is by_id[i] for a, i in zip(e.vertices, e.vertex_ids)), label + "edges bound to the vertices they name")


def state_arrays(k, g):
    out = []
    for i, v in enumerate(g._vertices):
        out.append(("pose:vertex %d" % i, v.pose))
    for j, e in enumerate(g._edges):
        out.append(("information:edge %d" % j, e.information))
        if hasattr(e.estimate, "shape") and getattr(e.estimate, "shape", ()) != ():
            out.append(("estimate:edge %d" % j, e.estimate))
        if getattr(e, "offset", None) is not None:
            out.append(("offset:edge %d" % j, e.offset))
    for key, p_ in (g._g2o_params or {}).items():
        if hasattr(p_.value, "shape"):
            out.append(("parameter:%s" % (key,), p_.value))
    return out


def shares(k, a, b):
    if k.mode == "sym":
        return a._st is b._st
    return bool(k.np.shares_memory(a, b))


def obligations(r, tier, seed):
    obs = []
    seps = [" ", "  ", " \t "]
    eols = [("\n", True), ("\r\n", True), ("\n", False), ("\r\n", False)]

    for si, sep in enumerate(seps):
        for ei, (eol, last) in enumerate(eols):
            if tier == "quick" and (si + ei) % 2 and not (si == 0 and ei == 0):
                continue
            def plain(k, sep=sep, eol=eol, last=last, style=si + ei):
                lines = standard_lines(k, style)
                path = write_file([l.text(sep) for l in lines], eol, last)
                try:
                    g, warnings_ = load(k, path)
                finally:
                    os.unlink(path)
                check_graph(k, g, lines)
                k.check(not warnings_, "no warning for a file of supported lines", warnings_[:2])
            obs.append(Ob("C14/all-tags/sep%d/eol%d%s" % (si, ei, "" if last else "-noeol"), plain, scope="shape-bounded",
                          bound="13-line file, separator %r, line end %r" % (sep, eol), funcs=FUNCS, light=True))

    # ---- "carries exactly the numbers on that line" must stay true: the arrays of the loaded objects are the objects' own.  No two
    #      of them share storage (except the documented sharing: an SE(3) landmark edge's offset IS its parameter's value), none
    #      is shared with an object of an earlier load, and writing into one changes no other -- so a later load of the same
    #      file still yields the numbers on its lines.
    def own_storage(k):
        lines = standard_lines(k)
        extra = gen_line(k, "EDGE_SE2_XY", [-4, ID_XY], "e1b")
        lines.insert(10, extra)
        path = write_file([l.text() for l in lines])
        try:
            g1, _ = load(k, path)
            arrays1 = state_arrays(k, g1)
            # scribble over every array of the first load
            for name, a in arrays1:
                a[...] = 99
            g2, _ = load(k, path)
        finally:
            os.unlink(path)
        arrays2 = state_arrays(k, g2)
        for i, (n1, a1) in enumerate(arrays1):
            for n2, a2 in arrays1[i + 1:]:
                if not shares(k, a1, a2):
                    continue
                documented = {n1.split(":")[0], n2.split(":")[0]} == {"offset", "parameter"}
                k.check(documented, "within one load: %s and %s do not share storage" % (n1, n2))
        for n1, a1 in arrays1:
            for n2, a2 in arrays2:
                k.check(not shares(k, a1, a2), "%s of the first load and %s of the second load do not share storage" % (n1, n2))
        check_graph(k, g2, lines, "after the objects of an earlier load were overwritten: ")
    obs.append(Ob("C14/loaded-objects-own-their-arrays", own_storage, scope="shape-bounded", bound="14-line file, loaded twice", funcs=FUNCS, light=True))

    # ---- junk / blank lines at every position
    for pos in range(0, 14, (1 if tier == "thorough" else 3)):
        for ji, junk in enumerate(JUNK):
            if tier == "quick" and (pos + ji) % 3 and not (ji >= 7 and pos == 0):
                continue
            def with_junk(k, pos=pos, junk=junk):
                lines = standard_lines(k)
                texts = [l.text() for l in lines]
                texts.insert(pos, junk)
                path = write_file(texts)
                try:
                    g, warnings_ = load(k, path)
                finally:
                    os.unlink(path)
                check_graph(k, g, lines)
                if junk.strip():
                    k.check(len(warnings_) == 1 and junk.strip() in warnings_[0], "exactly one warning, naming the unrecognised line", warnings_[:3])
                else:
                    k.check(len(warnings_) <= 1, "a blank line gives at most one warning", warnings_[:3])
            obs.append(Ob("C14/junk-line/%d-at-%d" % (ji, pos), with_junk, scope="shape-bounded", bound="junk line %r at position %d" % (junk, pos),
                          funcs=FUNCS, light=True))

    # ---- line orders (parameters before their use, otherwise any order)
    orders = [list(range(13)), [1, 0, 5, 6, 7, 2, 3, 4, 10, 11, 8, 9, 12], [0, 8, 2, 9, 3, 4, 1, 12, 10, 5, 6, 11, 7], list(reversed(range(13)))]
    for oi, order in enumerate(orders[1:], 1):
        def reordered(k, order=order):
            lines = standard_lines(k)
            lines = [lines[i] for i in order]
            par_pos = [i for i, l in enumerate(lines) if l.tag == "PARAMS_SE3OFFSET"][0]
            use_pos = [i for i, l in enumerate(lines) if l.tag == "EDGE_SE3_TRACKXYZ"][0]
            path = write_file([l.text() for l in lines])
            try:
                if par_pos > use_pos:
                    k.raises(lambda: load(k, path), "a landmark edge that uses a parameter defined later in the file is refused")
                    return
                g, warnings_ = load(k, path)
            finally:
                os.unlink(path)
            check_graph(k, g, lines)
        obs.append(Ob("C14/line-order/%d" % oi, reordered, scope="shape-bounded", bound="one permutation of the 13 lines", funcs=FUNCS, light=True))

    # ---- all loader entry points behave identically
    def loaders(k):
        r_ = k.r
        lines = [l for l in standard_lines(k) if l.tag != "EDGE_DISTANCE"]
        path = write_file([l.text() for l in lines])
        try:
            base, _ = load(k, path, via=lambda p: r_.Graph.from_g2o(p))
            for name in ("load_g2o", "load_g2o_r2", "load_g2o_r3", "load_g2o_se2", "load_g2o_se3"):
                g, _ = load(k, path, via=getattr(r_.load, name))
                check_graph(k, g, lines, label=name + ": ")
                k.check(type(g) is type(base), name + ": same graph class")
        finally:
            os.unlink(path)
    obs.append(Ob("C14/loader-entry-points", loaders, scope="shape-bounded", bound="12-line file", funcs=FUNCS, light=True, max_paths=64))

    # ---- internal: the triangular expansion
    for n in (2, 3, 6):
        def tri(k, n=n):
            arr = k.vec("u", n * (n + 1) // 2)
            M = k.r.util.upper_triangular_matrix_to_full_matrix(arr, n)
            want = G.expand_upper([arr[i] for i in range(len(arr))], n)
            k.same([[M[i, j] for j in range(n)] for i in range(n)], want, "row-major upper triangle expanded symmetrically")
            back = M[k.np.triu_indices(n, 0)]
            k.same(back, arr, "upper triangle of the result is the input")
        obs.append(Ob("C14/internal/upper_triangular_matrix_to_full_matrix/n=%d" % n, tri, tier="internal",
                      funcs=["graphslam.util.upper_triangular_matrix_to_full_matrix"]))

    # canaries
    def canary_swapped(k):
        lines = standard_lines(k)
        path = write_file([l.text() for l in lines])
        try:
            g, _ = load(k, path)
        finally:
            os.unlink(path)
        l = lines[4]        # VERTEX_XY
        v = [x for x in g._vertices if x.id == ID_XY][0]
        k.same([v.pose[0], v.pose[1]], [l.values[1], l.values[0]], "fields swapped")
    obs.append(Ob("C14/canary/vertex-fields-swapped", canary_swapped, tier="canary", light=True))

    def canary_colmajor(k):
        lines = standard_lines(k)
        path = write_file([l.text() for l in lines])
        try:
            g, _ = load(k, path)
        finally:
            os.unlink(path)
        l = lines[8]        # EDGE_SE2
        e = g._edges[0]
        vals = l.values[3:]
        colmajor = [[vals[0], vals[1], vals[3]], [vals[1], vals[2], vals[4]], [vals[3], vals[4], vals[5]]]
        k.same([[e.information[i, j] for j in range(3)] for i in range(3)], colmajor, "column-major packing")
    obs.append(Ob("C14/canary/information-column-major", canary_colmajor, tier="canary", light=True))
    return obs


META = {
    "bounds": "files of the 10 tags + 1 custom tag (13 lines); separators ' ', '  ', ' \\t '; line ends \\n, \\r\\n, none at EOF; 7 junk lines at positions 0..13; 4 line orders; numbers universal (opaque tokens)",
    "assumptions": ["float(text) returns the number the text denotes for every spelling float() accepts; int(str(i)) == i; the text of a number contains no blank (CPython, assumed)",
                    "str.split / startswith / readlines are executed natively by CPython"],
}
