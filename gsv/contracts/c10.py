"""C10 -- the public pose Jacobian methods are exact derivatives.

For each of the 12 methods of each of the 4 pose classes:
  (shape)     the documented shape (base_pose.py docstrings), computed from the real results;
  (compact)   the *_compact variant equals the first COMPACT_DIMENSIONALITY rows of the full Jacobian;
  (manifold)  J_op(.) . operand.jacobian_boxplus()  ==  d/d(delta) op(operand [+] delta) at delta = 0, for every unit
              quaternion and every angle, where [+] is the *real* box-plus run on a first-order jet -- top level;
  (ambient)   J[i][j] == d op_i / d operand_j for the code's own operation on raw (unconstrained) components, the
              convention the test-suite documents -- internal (a consistent change of the off-manifold extension is
              CONTRACT-DRIFT, not a violation).
"""
from gsv.ob import Ob, TYPES
from gsv.kernel import POSE_C, POSE_N, POINT_OF
from gsv.contracts.c09 import FUNCS

OPS = {"oplus": lambda a, b: a + b, "ominus": lambda a, b: a - b}


def wrap_rows(T):
    return (2,) if T == "SE2" else ()


def obligations(r, tier, seed):
    obs = []
    for T in TYPES:
        cls = FUNCS[T]
        n, c = POSE_N[T], POSE_C[T]
        PT = POINT_OF[T]
        dp = POSE_N[PT]

        for opname, op in OPS.items():
            for wrt in ("self", "other"):
                mname = "jacobian_self_%s_other_wrt_%s" % (opname, wrt)

                def manifold(k, T=T, op=op, wrt=wrt, mname=mname, n=n, c=c):
                    a, b = k.pose(T, "a"), k.pose(T, "b")
                    J = getattr(a, mname)(b)
                    Jc = getattr(a, mname + "_compact")(b)
                    res = op(a, b)
                    n_res = len(res.to_array())
                    n_operand = len((a if wrt == "self" else b).to_array())
                    k.check(tuple(J.shape) == (n_res, n_operand), "shape/full")
                    k.check(tuple(Jc.shape) == (res.COMPACT_DIMENSIONALITY, n_operand), "shape/compact")
                    k.eq(Jc, J[:res.COMPACT_DIMENSIONALITY], "compact-rows")
                    x = a if wrt == "self" else b
                    B = x.jacobian_boxplus()
                    if wrt == "self":
                        f = lambda d: op(a + d, b).to_array()
                        fc = lambda d: op(a + d, b).to_compact()
                    else:
                        f = lambda d: op(a, b + d).to_array()
                        fc = lambda d: op(a, b + d).to_compact()
                    k.eq(k.np.dot(J, B), k.deriv(f, c, wrap_rows=wrap_rows(T)), "manifold/full")
                    k.eq(k.np.dot(Jc, B), k.deriv(fc, c, wrap_rows=wrap_rows(T)), "manifold/compact")
                obs.append(Ob("C10/%s/%s/manifold" % (T, mname), manifold, funcs=[cls + "." + mname, cls + "." + mname + "_compact"]))

                def ambient(k, T=T, op=op, wrt=wrt, mname=mname, n=n):
                    a, b = k.pose(T, "a", unit=False), k.pose(T, "b", unit=False)
                    ra, rb = [a[i] for i in range(n)], [b[i] for i in range(n)]
                    J = getattr(a, mname)(b)
                    Jc = getattr(a, mname + "_compact")(b)
                    if wrt == "self":
                        f = lambda d: op(k.pose_from_raw(T, [ra[i] + d[i] for i in range(n)]), b).to_array()
                        fc = lambda d: op(k.pose_from_raw(T, [ra[i] + d[i] for i in range(n)]), b).to_compact()
                    else:
                        f = lambda d: op(a, k.pose_from_raw(T, [rb[i] + d[i] for i in range(n)])).to_array()
                        fc = lambda d: op(a, k.pose_from_raw(T, [rb[i] + d[i] for i in range(n)])).to_compact()
                    k.eq(J, k.deriv(f, n, wrap_rows=wrap_rows(T)), "ambient/full")
                    k.eq(Jc, k.deriv(fc, n, wrap_rows=wrap_rows(T)), "ambient/compact")
                obs.append(Ob("C10/%s/%s/ambient" % (T, mname), ambient, tier="internal", funcs=[cls + "." + mname, cls + "." + mname + "_compact"]))

        def boxplus(k, T=T, n=n, c=c):
            a = k.pose(T, "a")
            B = a.jacobian_boxplus()
            k.check(tuple(B.shape) == (len(a.to_array()), a.COMPACT_DIMENSIONALITY), "shape")
            k.eq(B, k.deriv(lambda d: (a + d).to_array(), c, wrap_rows=wrap_rows(T)), "boxplus")
        obs.append(Ob("C10/%s/jacobian_boxplus/manifold" % T, boxplus, funcs=[cls + ".jacobian_boxplus"]))

        def point_jacs(k, T=T, PT=PT, n=n, c=c, dp=dp):
            a = k.pose(T, "a")
            x = k.reals("x", dp)
            pt = k.pose_cls(PT)(list(x))
            Js = a.jacobian_self_oplus_point_wrt_self(pt)
            Jp = a.jacobian_self_oplus_point_wrt_point(pt)
            n_res = len((a + pt).to_array())
            k.check(tuple(Js.shape) == (n_res, len(a.to_array())), "shape/wrt_self")
            k.check(tuple(Jp.shape) == (n_res, len(pt.to_array())), "shape/wrt_point")
            k.eq(k.np.dot(Js, a.jacobian_boxplus()), k.deriv(lambda d: ((a + d) + pt).to_array(), c), "manifold/wrt_self")
            k.eq(k.np.dot(Jp, pt.jacobian_boxplus()), k.deriv(lambda d: (a + (pt + d)).to_array(), dp), "manifold/wrt_point")
        obs.append(Ob("C10/%s/jacobian_self_oplus_point/manifold" % T, point_jacs,
                      funcs=[cls + ".jacobian_self_oplus_point_wrt_self", cls + ".jacobian_self_oplus_point_wrt_point"]))

        def point_ambient(k, T=T, PT=PT, n=n, dp=dp):
            a = k.pose(T, "a", unit=False)
            ra = [a[i] for i in range(n)]
            x = k.reals("x", dp)
            pt = k.pose_cls(PT)(list(x))
            Js = a.jacobian_self_oplus_point_wrt_self(pt)
            Jp = a.jacobian_self_oplus_point_wrt_point(pt)
            k.eq(Js, k.deriv(lambda d: (k.pose_from_raw(T, [ra[i] + d[i] for i in range(n)]) + pt).to_array(), n), "ambient/wrt_self")
            k.eq(Jp, k.deriv(lambda d: (a + k.pose_cls(PT)([x[i] + d[i] for i in range(dp)])).to_array(), dp), "ambient/wrt_point")
        obs.append(Ob("C10/%s/jacobian_self_oplus_point/ambient" % T, point_ambient, tier="internal",
                      funcs=[cls + ".jacobian_self_oplus_point_wrt_self", cls + ".jacobian_self_oplus_point_wrt_point"]))

        def inverse(k, T=T, n=n, c=c):
            a = k.pose(T, "a")
            J = a.jacobian_inverse()
            k.check(tuple(J.shape) == (len(a.to_array()), len(a.to_array())), "shape")
            k.eq(k.np.dot(J, a.jacobian_boxplus()), k.deriv(lambda d: (a + d).inverse.to_array(), c, wrap_rows=wrap_rows(T)), "manifold")
        obs.append(Ob("C10/%s/jacobian_inverse/manifold" % T, inverse, funcs=[cls + ".jacobian_inverse"]))

        def inverse_ambient(k, T=T, n=n):
            a = k.pose(T, "a", unit=False)
            ra = [a[i] for i in range(n)]
            k.eq(a.jacobian_inverse(), k.deriv(lambda d: k.pose_from_raw(T, [ra[i] + d[i] for i in range(n)]).inverse.to_array(), n,
                                               wrap_rows=wrap_rows(T)), "ambient")
        obs.append(Ob("C10/%s/jacobian_inverse/ambient" % T, inverse_ambient, tier="internal", funcs=[cls + ".jacobian_inverse"]))

    # ---- "exact derivative" is a statement about the value the pose holds WHEN the method is called: poses are mutable arrays
    #      (in-place assignment, normalize()), so every method is called, the operands are overwritten in place, and every method
    #      is called again: the results are those of freshly built poses with the new values.
    for T in TYPES:
        for how in (("assign", "normalize") if T == "SE3" else ("assign",)):
            def fresh_values(k, T=T, how=how):
                PT = POINT_OF[T]
                n = POSE_N[T]
                unit = how != "normalize"
                a1, b1 = k.pose(T, "a1", unit=unit), k.pose(T, "b1", unit=unit)
                a2, b2 = k.pose(T, "a2"), k.pose(T, "b2")
                pt = k.pose_cls(PT)(list(k.reals("x", POSE_N[PT])))

                def all_methods(a, b):
                    out = []
                    for opname in OPS:
                        for wrt in ("self", "other"):
                            for suffix in ("", "_compact"):
                                m = "jacobian_self_%s_other_wrt_%s%s" % (opname, wrt, suffix)
                                out.append((m, getattr(a, m)(b)))
                    out.append(("jacobian_boxplus", a.jacobian_boxplus()))
                    out.append(("jacobian_inverse", a.jacobian_inverse()))
                    out.append(("jacobian_self_oplus_point_wrt_self", a.jacobian_self_oplus_point_wrt_self(pt)))
                    out.append(("jacobian_self_oplus_point_wrt_point", a.jacobian_self_oplus_point_wrt_point(pt)))
                    return out
                first = all_methods(a1, b1)
                if how == "assign":
                    # the caller owns what it was given: overwrite every returned Jacobian, then ask again for the SAME values
                    want0 = [(m_, k.np.array(J_)) for m_, J_ in first]
                    raw_a, raw_b = [a1[i] for i in range(n)], [b1[i] for i in range(n)]
                    for _m, J_ in first:
                        J_[...] = 7
                    same_values = all_methods(k.pose_from_raw(T, raw_a), k.pose_from_raw(T, raw_b))
                    for (m_, got), (_, want) in zip(same_values, want0):
                        k.eq(got, want, "%s for the same values, after the array returned by an earlier call was overwritten by its caller" % m_)
                if how == "assign":
                    a1[:] = a2.to_array()
                    b1[:] = b2.to_array()
                else:
                    a1.normalize()
                    b1.normalize()
                again = all_methods(a1, b1)
                ref = all_methods(k.pose_from_raw(T, [a1[i] for i in range(n)]), k.pose_from_raw(T, [b1[i] for i in range(n)]))
                for (m, got), (_, want) in zip(again, ref):
                    k.eq(got, want, "%s after the operands were changed in place (%s) == the result for fresh poses with the new values" % (m, how))
                k.check(len(first) == 12, "all 12 methods called before the change")
            obs.append(Ob("C10/%s/jacobians-depend-on-the-current-value-only/%s" % (T, how), fresh_values, funcs=[FUNCS[T]]))

    # canaries
    def canary_sign(k):
        a, b = k.pose("SE3", "a"), k.pose("SE3", "b")
        J = a.jacobian_self_oplus_other_wrt_self(b)
        J2 = k.np.array(J)
        J2[3, 3] = -J2[3, 3]
        k.eq(k.np.dot(J2, a.jacobian_boxplus()), k.deriv(lambda d: ((a + d) + b).to_array(), 6), "one-entry-sign-flipped")
    obs.append(Ob("C10/canary/SE3-oplus-wrt-self-entry-sign", canary_sign, tier="canary"))

    def canary_scale(k):
        a = k.pose("SE2", "a")
        k.eq(2 * a.jacobian_boxplus(), k.deriv(lambda d: (a + d).to_array(), 3, wrap_rows=(2,)), "boxplus-doubled")
    obs.append(Ob("C10/canary/SE2-boxplus-doubled", canary_scale, tier="canary"))
    return obs
