"""C02 -- edge errors and chi^2 implement the documented measurement model.

Oracle: gsv.specs.lie (homogeneous matrices, Hamilton products), written from the mathematics.

  odometry   e = calc_error().  With E the rigid motion whose compact form is e:  p2 * E == p1 * z, stated without
             inverses: hom(p2) applied to trans(e) == hom(p1) applied to trans(z); rotation part by quaternion / angle.
  landmark   hom(p1) . hom(offset) . [e + z; 1] == [l; 1].
  chi2       BaseEdge.calc_chi2 with calc_error cut to fresh symbols and a *full* (non-symmetric) Omega: e^T Omega e.
  graph      Graph.calc_chi2 with per-edge chi^2 cut to symbols: their sum (edge count 0..6: shape-bounded).
  lemmas     linear in Omega; Omega = L^T L  ==>  chi2 = |L e|^2 (a sum of squares, hence >= 0); e = 0 exactly when the
             measurement agrees with the estimates (forward by substitution, converse through hom(E) = I).
"""
from gsv.ob import Ob, TYPES
from gsv.kernel import POSE_C, POSE_N
from gsv.specs import lie
from gsv.contracts.c01 import make_odometry, make_landmark, LANDMARK_TYPINGS, ODO, LMK

BASE = "graphslam.edge.base_edge.BaseEdge"


def stub_edge_class(k, err=None, chi2=None):
    """A custom edge whose calc_error (or calc_chi2) is cut to the given symbols."""
    r = k.r

    class CutEdge(r.BaseEdge):
        def calc_error(self):
            return err

        def is_valid(self):
            return self._is_valid()
    if chi2 is not None:
        CutEdge.calc_chi2 = lambda self: chi2
    return CutEdge


def quadform(e, Om):
    n = len(e)
    acc = 0
    for i in range(n):
        for j in range(n):
            acc = acc + e[i] * Om[i, j] * e[j]
    return acc


def obligations(r, tier, seed):
    obs = []
    for T in TYPES:
        def odo(k, T=T):
            np = k.np
            p1, p2, z = k.pose(T, "p1"), k.pose(T, "p2"), k.pose(T, "z")
            e = make_odometry(k, T, [p1, p2], z).calc_error()
            c = POSE_C[T]
            k.check(tuple(e.shape) == (c,), "error-shape")
            if T in ("R2", "R3"):
                k.eq(e, [z[i] - (p2[i] - p1[i]) for i in range(c)], "error-is-z-minus-(p2-p1)")
                return
            d = 2 if T == "SE2" else 3
            k.eq(lie.act(np, T, p2, [e[i] for i in range(d)]), lie.act(np, T, p1, [z[i] for i in range(d)]), "translation: p2*E == p1*z")
            if T == "SE2":
                want = z[2] - (p2[2] - p1[2])
                k.eq([np.cos(e[2]), np.sin(e[2])], [np.cos(want), np.sin(want)], "rotation: angle congruent to th_z-(th_2-th_1)")
            else:
                qE = lie.hamilton(lie.conj(lie.hamilton(lie.conj(lie.quat(p1)), lie.quat(p2))), lie.quat(z))
                # q and -q are the same rotation: the rotational error is the vector part of +qE or of -qE (one common sign),
                # i.e. it is parallel to vec(qE) with the same length ...
                er, v = [e[3], e[4], e[5]], qE[:3]
                k.eq([er[1] * v[2] - er[2] * v[1], er[2] * v[0] - er[0] * v[2], er[0] * v[1] - er[1] * v[0]], [0, 0, 0],
                     "rotation: error is parallel to the vector part of conj(conj(q1)q2) q_z")
                k.eq(er[0] * er[0] + er[1] * er[1] + er[2] * er[2], v[0] * v[0] + v[1] * v[1] + v[2] * v[2], "rotation: same length as that vector part")
                k.eq([er[i] * er[j] for i in range(3) for j in range(3)], [v[i] * v[j] for i in range(3) for j in range(3)],
                     "rotation: e_rot e_rot^T == v v^T (so e_rot = +v or e_rot = -v)")
                # ... and the full error pose E satisfies p2*E == p1*z as rigid motions
                E = z - (p2 - p1)
                k.eq(np.dot(lie.hom(np, T, p2), lie.hom(np, T, E)), np.dot(lie.hom(np, T, p1), lie.hom(np, T, z)), "rigid motion: p2*E == p1*z")
                k.eq(lie.quat(E), qE, "quaternion of E")
                Ec = E.to_compact()
                k.eq([e[0], e[1], e[2]], [Ec[0], Ec[1], Ec[2]], "translational error is the translation of E")
        obs.append(Ob("C02/odometry/%s/error-model" % T, odo, funcs=[ODO + ".calc_error"]))

        def odo_zero(k, T=T):
            p1, p2 = k.pose(T, "p1"), k.pose(T, "p2")
            z = p2 - p1
            c = POSE_C[T]
            e = make_odometry(k, T, [p1, p2], z).calc_error()
            if T == "SE2":
                k.eq([e[0], e[1], k.np.cos(e[2]), k.np.sin(e[2])], [0, 0, 1, 0], "agreement-gives-zero-error")
                pi = k.np.pi
                k.holds((e[2] >= -pi) & (e[2] <= pi), "angle-in-range")    # with cos=1: e[2] == 0
            else:
                k.eq(e, [0] * c, "agreement-gives-zero-error")
            if T == "SE3":
                zneg = k.r.PoseSE3([z[0], z[1], z[2]], [-z[3], -z[4], -z[5], -z[6]])
                k.eq(make_odometry(k, T, [p1, p2], zneg).calc_error(), [0] * c, "agreement-with-negated-quaternion-gives-zero-error")
        obs.append(Ob("C02/odometry/%s/zero-iff-agreement/forward" % T, odo_zero, funcs=[ODO + ".calc_error"]))

    for TP, TL in LANDMARK_TYPINGS:
        def lmk(k, TP=TP, TL=TL):
            np = k.np
            p, l = k.pose(TP, "p"), k.pose(TL, "l")
            off, z = k.pose(TP, "off"), k.pose(TL, "z")
            e = make_landmark(k, TP, TL, [p, l], z, off).calc_error()
            d = POSE_N[TL]
            k.check(tuple(e.shape) == (d,), "error-shape")
            pt = [e[i] + z[i] for i in range(d)]
            M = np.dot(lie.hom(np, TP, p), lie.hom(np, TP, off))
            h = np.dot(M, np.array(pt + [1]))
            k.eq([h[i] for i in range(d)], [l[i] for i in range(d)], "p*off*(e+z) == l")
        obs.append(Ob("C02/landmark/%s-%s/error-model" % (TP, TL), lmk, funcs=[LMK + ".calc_error"]))

        def lmk_zero(k, TP=TP, TL=TL):
            np = k.np
            p, off, z = k.pose(TP, "p"), k.pose(TP, "off"), k.pose(TL, "z")
            d = POSE_N[TL]
            M = np.dot(lie.hom(np, TP, p), lie.hom(np, TP, off))
            h = np.dot(M, np.array([z[i] for i in range(d)] + [1]))
            l = k.pose_cls(TL)([h[i] for i in range(d)])
            e = make_landmark(k, TP, TL, [p, l], z, off).calc_error()
            k.eq(e, [0] * d, "agreement-gives-zero-error")
        obs.append(Ob("C02/landmark/%s-%s/zero-iff-agreement/forward" % (TP, TL), lmk_zero, funcs=[LMK + ".calc_error"]))

    def zero_converse(k):
        np = k.np
        w = k.real("w")
        k.eq(lie.hom_SE3(np, [0, 0, 0], [0, 0, 0, w]), lie.identity_matrix(np, 4), "SE3: compact error 0 means E is the identity motion (any w)")
        k.eq(lie.hom_R(np, [0, 0]), lie.identity_matrix(np, 3), "R2")
        k.eq(lie.hom_R(np, [0, 0, 0]), lie.identity_matrix(np, 4), "R3")
        kk = k.integer("k")
        k.eq(lie.hom_SE2(np, 0, 0, 2 * np.pi * kk), lie.identity_matrix(np, 3), "SE2: angle 0 modulo 2 pi")
    obs.append(Ob("C02/lemma/zero-compact-error-is-identity-motion", zero_converse, tier="internal", numeric=True))

    for n in range(1, 7):
        def chi2(k, n=n):
            e = k.vec("e", n)
            Om = k.matrix("Om", n, n)
            E = stub_edge_class(k, err=e)
            edge = E([0], Om, None, [k.r.Vertex(0, k.r.PoseR2([0.0, 0.0]))])
            k.eq(edge.calc_chi2(), quadform(e, Om), "chi2 == e^T Omega e (full, non-symmetric Omega)")
        obs.append(Ob("C02/BaseEdge.calc_chi2/dim%d" % n, chi2, funcs=[BASE + ".calc_chi2"]))

    def chi2_linear(k):
        n = 3
        e = k.vec("e", n)
        O1, O2 = k.matrix("A", n, n), k.matrix("B", n, n)
        al, be = k.real("alpha"), k.real("beta")
        E = stub_edge_class(k, err=e)
        v = [k.r.Vertex(0, k.r.PoseR2([0.0, 0.0]))]
        lhs = E([0], al * O1 + be * O2, None, v).calc_chi2()
        k.eq(lhs, al * E([0], O1, None, v).calc_chi2() + be * E([0], O2, None, v).calc_chi2(), "linear in Omega")
    obs.append(Ob("C02/lemma/chi2-linear-in-Omega", chi2_linear, funcs=[BASE + ".calc_chi2"]))

    def chi2_psd(k):
        n = 3
        e = k.vec("e", n)
        L = k.matrix("L", n, n)
        Om = k.np.dot(k.np.transpose(L), L)
        E = stub_edge_class(k, err=e)
        chi2 = E([0], Om, None, [k.r.Vertex(0, k.r.PoseR2([0.0, 0.0]))]).calc_chi2()
        Le = k.np.dot(L, e)
        k.eq(chi2, Le[0] * Le[0] + Le[1] * Le[1] + Le[2] * Le[2], "Omega = L^T L  ==>  chi2 = |L e|^2")
        k.holds(chi2 >= 0, "chi2 >= 0 for positive semi-definite Omega")
    obs.append(Ob("C02/lemma/chi2-nonnegative-for-psd", chi2_psd, funcs=[BASE + ".calc_chi2"]))

    for T in TYPES:
        def real_chi2(k, T=T):
            c = POSE_C[T]
            p1, p2, z = k.pose(T, "p1"), k.pose(T, "p2"), k.pose(T, "z")
            Om = k.matrix("Om", c, c)
            r_ = k.r
            edge = r_.EdgeOdometry([0, 1], Om, z, [r_.Vertex(0, p1), r_.Vertex(1, p2)])
            e = edge.calc_error()
            k.eq(edge.calc_chi2(), quadform(e, Om), "chi2 of the real edge == e^T Omega e")
        obs.append(Ob("C02/odometry/%s/chi2" % T, real_chi2, funcs=[BASE + ".calc_chi2", ODO + ".calc_error"], eager=(T == "SE3")))

    for E_ in range(0, 7):
        def graph_sum(k, E_=E_):
            r_ = k.r
            cs = [k.nonneg("c%d" % i) for i in range(E_)]
            vs = [r_.Vertex(0, r_.PoseR2([0.0, 0.0])), r_.Vertex(1, r_.PoseR2([1.0, 0.0]))]
            edges = [stub_edge_class(k, chi2=c)([0, 1], k.np.eye(2), None) for c in cs]
            g = r_.Graph(edges, vs)
            total = 0
            for c in cs:
                total = total + c
            k.eq(g.calc_chi2(), total, "Graph.calc_chi2 == sum of the edges' chi2")
            k.eq(g.calc_chi2(), total, "second call returns the same")
        obs.append(Ob("C02/Graph.calc_chi2/%d-edges" % E_, graph_sum, scope="shape-bounded", bound="edge count %d (family 0..6)" % E_,
                      funcs=["graphslam.graph.Graph.calc_chi2"]))

    def graph_real(k):
        r_ = k.r
        np = k.np
        a, b, l = k.pose("SE2", "a"), k.pose("SE2", "b"), k.pose("R2", "l")
        vs = [r_.Vertex(7, a), r_.Vertex(-2, l), r_.Vertex(3, b)]
        e1 = r_.EdgeOdometry([7, 3], k.sym_matrix("O1", 3), k.pose("SE2", "z1"))
        e2 = r_.EdgeOdometry([3, 7], k.sym_matrix("O2", 3), k.pose("SE2", "z2"))
        e3 = r_.EdgeLandmark([3, -2], k.sym_matrix("O3", 2), k.pose("R2", "z3"), k.pose("SE2", "off"), 0)
        g = r_.Graph([e1, e2, e3], vs)
        want = 0
        for e in (e1, e2, e3):
            want = want + quadform(e.calc_error(), e.information)
        k.eq(g.calc_chi2(), want, "mixed SE2/R2 graph: sum of e^T Omega e")
    obs.append(Ob("C02/Graph.calc_chi2/real-edges-SE2-R2", graph_real, scope="shape-bounded", bound="one 3-vertex, 3-edge graph",
                  funcs=["graphslam.graph.Graph.calc_chi2", BASE + ".calc_chi2"]))

    def graph_requery(k):
        r_ = k.r
        from gsv.contracts.c01 import FIRST_STATE
        a0, b0, l0 = k.pose_from_raw("SE2", FIRST_STATE["SE2"][0]), k.pose_from_raw("SE2", FIRST_STATE["SE2"][1]), k.pose_from_raw("R2", FIRST_STATE["R2"][0])
        vs = [r_.Vertex(7, a0), r_.Vertex(-2, l0), r_.Vertex(3, b0)]
        e1 = r_.EdgeOdometry([7, 3], k.sym_matrix("O1", 3), k.pose("SE2", "z1"))
        e3 = r_.EdgeLandmark([3, -2], k.sym_matrix("O3", 2), k.pose("R2", "z3"), k.pose("SE2", "off"), 0)
        g = r_.Graph([e1, e3], vs)
        first = g.calc_chi2()
        a, b, l = k.pose("SE2", "a"), k.pose("SE2", "b"), k.pose("R2", "l")
        vs[0].pose = a                      # replaced (what the optimizer does)
        vs[1].pose[:] = l.to_array()        # changed in place
        vs[2].pose[:] = b.to_array()
        c = k.pos("scale")
        e1.information = c * e1.information         # information re-weighted after the graph was built: replaced ...
        e3.information[...] = c * e3.information    # ... and scaled in place
        e1.estimate[:] = k.pose("SE2", "z1new").to_array()
        e3.estimate = k.pose("R2", "z3new")
        want = 0
        for e in (e1, e3):
            want = want + quadform(e.calc_error(), e.information)
        k.eq(g.calc_chi2(), want, "Graph.calc_chi2() after the poses changed == sum of e^T Omega e at the current poses")
        fresh = r_.Graph([r_.EdgeOdometry([7, 3], e1.information, e1.estimate), r_.EdgeLandmark([3, -2], e3.information, e3.estimate, e3.offset, 0)],
                         [r_.Vertex(7, a), r_.Vertex(-2, l), r_.Vertex(3, b)])
        k.eq(g.calc_chi2(), fresh.calc_chi2(), "... == calc_chi2() of a freshly built graph with those poses")
    obs.append(Ob("C02/Graph.calc_chi2/after-poses-changed", graph_requery, scope="shape-bounded", bound="one 3-vertex, 2-edge graph",
                  funcs=["graphslam.graph.Graph.calc_chi2", BASE + ".calc_chi2"]))

    def graph_reused_edges(k):
        r_ = k.r
        mk = lambda px: [r_.Vertex(7, k.pose("SE2", px + "a")), r_.Vertex(-2, k.pose("R2", px + "l")), r_.Vertex(3, k.pose("SE2", px + "b"))]
        e1 = r_.EdgeOdometry([7, 3], k.sym_matrix("O1", 3), k.pose("SE2", "z1"))
        e3 = r_.EdgeLandmark([3, -2], k.sym_matrix("O3", 2), k.pose("R2", "z3"), k.pose("SE2", "off"), 0)
        g1 = r_.Graph([e1, e3], mk("first."))
        first = g1.calc_chi2()
        vs2 = mk("second.")
        g2 = r_.Graph([e1, e3], [vs2[2], vs2[0], vs2[1]])          # the same edge objects, other vertex objects (same ids, other list order)
        fresh = r_.Graph([r_.EdgeOdometry([7, 3], e1.information, e1.estimate), r_.EdgeLandmark([3, -2], e3.information, e3.estimate, e3.offset, 0)], mk("second."))
        k.eq(g2.calc_chi2(), fresh.calc_chi2(), "chi2 of a graph built from re-used edge objects is the chi2 at ITS OWN vertices' poses")
    obs.append(Ob("C02/Graph.calc_chi2/edge-objects-reused-in-a-second-graph", graph_reused_edges, scope="shape-bounded", bound="one 3-vertex, 2-edge graph",
                  funcs=["graphslam.graph.Graph.calc_chi2", "graphslam.graph.Graph._initialize"]))

    # ---- the chi2 that optimize() accumulates and reports is the same sum over ALL edges (also edges that touch fixed vertices only)
    for fixed in ((), (0,), (0, 1), (0, 1, 2)):
        def reported(k, fixed=fixed):
            from gsv.contracts import common
            from gsv.contracts.c12 import chi2_sum
            r_ = k.r
            ghost = common.Ghost()
            Cut = common.opaque_edge_class(k, ghost)
            vs = [r_.Vertex(i, r_.PoseR2([k.real("v%dx" % i), k.real("v%dy" % i)]), fixed=(i in fixed)) for i in range(3)]
            u, Om = k.vec("u", 2), k.sym_matrix("Ou", 2)
            c_u = quadform(u, Om)

            class ErrEdge(r_.BaseEdge):     # only calc_error is cut: chi2 / gradient / Hessian come from the real BaseEdge code
                def calc_error(self):
                    return k.np.array(u)

                def is_valid(self):
                    return self._is_valid()

                def _chi2(self):
                    return c_u
            es = [Cut([0, 1]), Cut([1, 2]), Cut([2]), Cut([0]), Cut([1, 0]), ErrEdge([0, 1], Om, None), ErrEdge([2], Om, None)]
            g = r_.Graph(es, vs)
            with common.counting_spsolve(k, ghost):
                ret = g.optimize(tol=0, max_iter=1, fix_first_pose=False, verbose=False)
            k.eq(ret.initial_chi2, chi2_sum(es, 0, ghost), "initial_chi2 == sum over all edges at the initial state")
            k.eq(ret.final_chi2, chi2_sum(es, ghost.s, ghost), "final_chi2 == sum over all edges at the returned state")
            k.eq(g.calc_chi2(), chi2_sum(es, ghost.s, ghost), "Graph.calc_chi2() afterwards == the same sum")
        obs.append(Ob("C02/Graph.optimize-reports-the-sum-over-all-edges/fixed=%s" % (",".join(map(str, fixed)) or "none"), reported, scope="shape-bounded",
                      bound="3 vertices, 5 cut edges, fixed set %s" % (fixed,), funcs=["graphslam.graph.Graph._calc_chi2_gradient_hessian", "graphslam.graph.Graph.calc_chi2"],
                      solver="functional", light=True))

    # ---- error and chi2 depend on the current values only (see c01.requery)
    from gsv.contracts.c01 import requery
    for kind, TP, TL in [("odometry", T, T) for T in TYPES] + [("landmark", a, b) for a, b in LANDMARK_TYPINGS]:
        for how in ("replaced", "changed-in-place"):
            if tier == "quick" and how == "replaced" and TP != "SE3":
                continue
            def rq(k, kind=kind, TP=TP, TL=TL, how=how):
                requery(k, kind, TP, TL, how, ("error",))
            obs.append(Ob("C02/%s/%s/error-and-chi2-depend-on-the-current-values-only/%s" % (kind, TP if kind == "odometry" else TP + "-" + TL, how), rq,
                          funcs=[(ODO if kind == "odometry" else LMK) + ".calc_error", BASE + ".calc_chi2"], eager=(TP == "SE3")))

    # canaries
    def canary_transposed(k):
        e = k.vec("e", 2)
        Om = k.matrix("Om", 2, 2)
        E = stub_edge_class(k, err=e)
        edge = E([0], Om, None, [k.r.Vertex(0, k.r.PoseR2([0.0, 0.0]))])
        k.eq(edge.calc_chi2(), e[0] * Om[0, 0] * e[0] + e[1] * Om[1, 1] * e[1], "diagonal-only")
    obs.append(Ob("C02/canary/chi2-diagonal-only", canary_transposed, tier="canary"))

    def canary_lmk(k):
        np = k.np
        p, l = k.pose("SE2", "p"), k.pose("R2", "l")
        off, z = k.pose("SE2", "off"), k.pose("R2", "z")
        e = make_landmark(k, "SE2", "R2", [p, l], z, off).calc_error()
        M = np.dot(lie.hom(np, "SE2", off), lie.hom(np, "SE2", p))
        h = np.dot(M, np.array([e[0] + z[0], e[1] + z[1], 1]))
        k.eq([h[0], h[1]], [l[0], l[1]], "offset-on-the-wrong-side")
    obs.append(Ob("C02/canary/landmark-offset-wrong-side", canary_lmk, tier="canary"))
    return obs


META = {
    "bounds": "edge-level obligations unbounded (4 pose types x 2 edge kinds, all inputs); Graph.calc_chi2 summation shape-bounded: 0..6 cut edges and one real mixed graph; chi2 dimension 1..6",
    "assumptions": ["Graph.calc_chi2 for an arbitrary number of edges follows from the builtin sum over the edge list (induction not mechanised)",
                    "positive definite Omega: chi2 = 0 => e = 0 is linear algebra, not code (assumed)"],
}
