"""C18 -- graph construction binds edges by vertex id and rejects ill-typed edges.

The property's own cross product is finite and is enumerated COMPLETELY:
  edge kind (odometry, landmark) x vertex count (1..3) x pose type of each endpoint (4^count) x measurement type
  (4 pose types, bare array) x offset type (4 pose types, None; landmark only) x information shape (n x n for n = 1..7,
  one n x m, one 1-D) x which of the named ids are present x vertex list order (as given / reversed).
Oracle: gsv.specs.valid.  Graph(edges, vertices) must raise iff the oracle says inconsistent or an id is unknown; when it
accepts, edge.vertices[i] is the vertex whose id is vertex_ids[i].  Numbers play no role (concrete execution).
"""
import itertools

from gsv.ob import Ob, TYPES
from gsv.specs import valid

GRAPH = "graphslam.graph.Graph"


def mkpose(k, T, seedval=0.0):
    r = k.r
    if T == "R2":
        return r.PoseR2([1.0 + seedval, 2.0])
    if T == "R3":
        return r.PoseR3([1.0 + seedval, 2.0, 3.0])
    if T == "SE2":
        return r.PoseSE2([1.0 + seedval, 2.0], 0.5)
    if T == "SE3":
        return r.PoseSE3([1.0 + seedval, 2.0, 3.0], [0.5, -0.5, 0.5, 0.5])
    if T == "array":
        return k.np.array([1.0, 2.0, 3.0])
    return None


INFO_SHAPES = [(n, n) for n in range(1, 8)] + [(2, 3), (3,)]


def mkinfo(k, shape):
    np = k.np
    if len(shape) == 1:
        return np.ones(shape[0])
    return np.eye(shape[0], shape[1])


def obligations(r, tier, seed):
    obs = []
    for kind in ("odometry", "landmark"):
        for count in (1, 2, 3):
            for ptypes in itertools.product(TYPES, repeat=count):
                def ob(k, kind=kind, count=count, ptypes=ptypes):
                    r_ = k.r
                    ids = [11, 5, -3][:count]
                    est_types = TYPES + ["array"]
                    off_types = (TYPES + [None]) if kind == "landmark" else [None]
                    bad = []
                    n_cases = n_accept = n_reject = 0
                    for et, ot, shape in itertools.product(est_types, off_types, INFO_SHAPES):
                        want_typing = valid.consistent(kind, ptypes, et, ot, shape)
                        for present in itertools.product([True, False], repeat=count):
                            # the complete id/order dimension only where it can matter; typing-inconsistent cases get the all-present variants
                            for reverse in (False, True):
                                if not all(present) and reverse:
                                    continue
                                vs = [r_.Vertex(i, mkpose(k, T, j)) for j, (i, T) in enumerate(zip(ids, ptypes)) if present[j]]
                                vs.append(r_.Vertex(99, mkpose(k, "R2", 9.0)))      # an unrelated vertex
                                if reverse:
                                    vs = vs[::-1]
                                info = mkinfo(k, shape)
                                est = mkpose(k, et)
                                if kind == "odometry":
                                    e = r_.EdgeOdometry(list(ids), info, est)
                                else:
                                    e = r_.EdgeLandmark(list(ids), info, est, mkpose(k, ot) if ot else None, 0)
                                want_accept = want_typing and all(present)
                                n_cases += 1
                                try:
                                    r_.Graph([e], vs)
                                    accepted = True
                                except Exception:       # noqa: BLE001 -- any exception is a rejection
                                    accepted = False
                                if accepted != want_accept:
                                    bad.append({"estimate": et, "offset": ot, "info": list(shape), "present": list(present), "reversed": reverse,
                                                "accepted": accepted, "oracle": want_accept})
                                    continue
                                if accepted:
                                    n_accept += 1
                                    byid = {v.id: v for v in vs}
                                    ok = len(e.vertices) == count and all(e.vertices[j] is byid[ids[j]] for j in range(count))
                                    if not ok:
                                        bad.append({"estimate": et, "offset": ot, "info": list(shape), "binding": "wrong vertex bound"})
                                else:
                                    n_reject += 1
                    k.note("cases", n_cases)
                    k.note("accepted", n_accept)
                    k.note("rejected", n_reject)
                    silently = [b for b in bad if b.get("accepted") and not b.get("oracle")]
                    refused = [b for b in bad if b.get("oracle") and not b.get("accepted")]
                    other = [b for b in bad if "binding" in b]
                    k.check(not silently, "no inconsistent edge is silently accepted", "%d accepted, first: %r" % (len(silently), silently[:1]))
                    k.check(not refused, "every consistent edge is accepted", "%d refused, first: %r" % (len(refused), refused[:1]))
                    k.check(not other, "accepted edges are bound to the vertices whose ids they name", other[:1])
                obs.append(Ob("C18/%s/%d-vertices/%s" % (kind, count, "-".join(ptypes)), ob, scope="unbounded",
                              funcs=[GRAPH + "._initialize", "graphslam.edge.edge_%s.Edge%s.is_valid" % (kind, kind.capitalize()),
                                     "graphslam.edge.base_edge.BaseEdge._is_valid"]))

    # ---- edges that arrive already bound (vertices= argument, or edge objects reused from another graph): construction must
    #      bind them to THIS graph's vertices and validate them against THIS graph's vertices
    for kind in ("odometry", "landmark"):
        def prebound(k, kind=kind):
            r_ = k.r
            TP, TL = ("SE2", "SE2") if kind == "odometry" else ("SE2", "R2")

            def mkedge(vertices):
                if kind == "odometry":
                    return r_.EdgeOdometry([4, 9], k.np.eye(3), mkpose(k, "SE2"), vertices)
                return r_.EdgeLandmark([4, 9], k.np.eye(2), mkpose(k, "R2"), mkpose(k, "SE2"), 0, vertices)
            stale = [r_.Vertex(4, mkpose(k, TP, 5.0)), r_.Vertex(9, mkpose(k, TL, 6.0))]
            # (a) same ids and types in the new graph: accepted and re-bound to the new graph's own vertex objects
            e = mkedge(list(stale))
            mine = [r_.Vertex(9, mkpose(k, TL)), r_.Vertex(4, mkpose(k, TP))]
            k.returns(lambda: r_.Graph([e], mine), "pre-bound consistent edge is accepted")
            k.check(e.vertices is not None and e.vertices[0] is mine[1] and e.vertices[1] is mine[0], "pre-bound edge is re-bound to the graph's own vertices")
            # (b) reused in a second graph whose vertex with that id has another pose type: rejected
            e2 = mkedge(list(stale))
            wrong = [r_.Vertex(4, mkpose(k, "R2")), r_.Vertex(9, mkpose(k, "R2" if kind == "odometry" else "SE3"))]
            k.raises(lambda: r_.Graph([e2], wrong), "pre-bound edge whose ids name ill-typed vertices of this graph is rejected")
            # (c) the graph has no vertex with one of the ids: rejected
            e3 = mkedge(list(stale))
            k.raises(lambda: r_.Graph([e3], [r_.Vertex(4, mkpose(k, TP))]), "pre-bound edge naming an id the graph does not have is rejected")
            # (d) an edge object taken from one graph into another
            g1 = r_.Graph([mkedge(None)], [r_.Vertex(4, mkpose(k, TP)), r_.Vertex(9, mkpose(k, TL))])
            e4 = g1._edges[0]
            mine2 = [r_.Vertex(4, mkpose(k, TP, 1.0)), r_.Vertex(9, mkpose(k, TL, 2.0))]
            k.returns(lambda: r_.Graph([e4], mine2), "edge reused in a second graph is accepted")
            k.check(e4.vertices[0] is mine2[0] and e4.vertices[1] is mine2[1], "reused edge is bound to the second graph's vertices")
        obs.append(Ob("C18/pre-bound-edges/%s" % kind, prebound, funcs=[GRAPH + "._initialize"]))

    # ---- internal: the validity predicate itself, asked directly (what construction relies on): an edge that is not bound, bound
    #      to a different number of vertices, or bound to vertices with other ids than it names is not valid
    def is_valid_direct(k):
        r_ = k.r
        mk = lambda vertices: r_.EdgeOdometry([4, 9], k.np.eye(3), mkpose(k, "SE2"), vertices)
        v4, v9, v5 = r_.Vertex(4, mkpose(k, "SE2")), r_.Vertex(9, mkpose(k, "SE2")), r_.Vertex(5, mkpose(k, "SE2"))
        k.check(mk([v4, v9]).is_valid() is True, "bound to the vertices it names: valid")
        k.check(mk(None).is_valid() is False, "not bound: not valid")
        k.check(mk([v4]).is_valid() is False, "bound to too few vertices: not valid")
        k.check(mk([v4, v9, v5]).is_valid() is False, "bound to too many vertices: not valid")
        k.check(mk([v9, v4]).is_valid() is False, "bound in the wrong order: not valid")
        k.check(mk([v4, v5]).is_valid() is False, "bound to a vertex with another id: not valid")
        ml = lambda vertices: r_.EdgeLandmark([4, 9], k.np.eye(2), mkpose(k, "R2"), mkpose(k, "SE2"), 0, vertices)
        l9, l5 = r_.Vertex(9, mkpose(k, "R2")), r_.Vertex(5, mkpose(k, "R2"))
        k.check(ml([v4, l9]).is_valid() is True, "landmark edge bound to the vertices it names: valid")
        k.check(ml(None).is_valid() is False, "landmark edge not bound: not valid")
        k.check(ml([v4, l5]).is_valid() is False, "landmark edge bound to a vertex with another id: not valid")
        k.check(ml([l9, v4]).is_valid() is False, "landmark edge bound in the wrong order: not valid")
    obs.append(Ob("C18/internal/is_valid-asked-directly", is_valid_direct, tier="internal",
                  funcs=["graphslam.edge.base_edge.BaseEdge._is_valid", "graphslam.edge.edge_odometry.EdgeOdometry.is_valid", "graphslam.edge.edge_landmark.EdgeLandmark.is_valid"]))

    def canary(k):
        r_ = k.r
        vs = [r_.Vertex(0, mkpose(k, "SE2")), r_.Vertex(1, mkpose(k, "SE2"))]
        e = r_.EdgeOdometry([0, 1], k.np.eye(3), mkpose(k, "SE2"))
        k.raises(lambda: r_.Graph([e], vs), "a consistent edge is rejected")
    obs.append(Ob("C18/canary/consistent-edge-rejected", canary, tier="canary"))

    def canary2(k):
        r_ = k.r
        vs = [r_.Vertex(0, mkpose(k, "SE2")), r_.Vertex(1, mkpose(k, "SE2"))]
        e = r_.EdgeOdometry([0, 1], k.np.eye(2), mkpose(k, "SE2"))
        k.returns(lambda: r_.Graph([e], vs), "wrong information shape accepted")
    obs.append(Ob("C18/canary/wrong-information-shape-accepted", canary2, tier="canary"))
    return obs


META = {
    "bounds": "none: the property's finite cross product is enumerated completely (exhaustive)",
    "assumptions": ["the interpreter is not run with -O (validity is enforced by an assert)"],
}
