"""C06 -- fixed vertices never move and free vertices solve the reduced problem.

  frame     (every outcome)  run the real optimize(max_iter = 1..3) with the solver stub in FAULT mode: its result is
            unconstrained, which is what a singular solve or a NaN is algebraically.  On every control path (converged,
            iteration limit, increasing chi^2) every fixed vertex holds the identical pose terms it held on entry, and the
            fixed flags changed only as fix_first_pose dictates (exactly vertices[0]).  Edges are cut to opaque
            contributions: only the frame is looked at.
  reduced   (normal mode)  the system handed to the solver is equivalent to the spec reduced system in which fixed poses
            are constants: it forces dx = 0 for EVERY fixed vertex (also one with no incident edge: its rows must not be
            all zero -- "marking vertices fixed never makes a well-posed problem unsolvable") and its free part is H_ff, b_f.
Shape family: G3 including its fault shapes (fixed vertex without incident edge, all fixed, none fixed with
fix_first_pose=False, under-constrained graphs).
"""
from gsv.ob import Ob
from gsv.kernel import POSE_C
from gsv.contracts import common, graphs
from gsv.contracts.c03 import run_one_iteration, has_se3, _cut_chi2

FUNCS = ["graphslam.graph.Graph.optimize", "graphslam.graph.Graph._calc_chi2_gradient_hessian", "graphslam.vertex.Vertex"]


def isolated_fixed(shape):
    touched = {i for _, ids, _ in shape["edges"] for i in ids}
    fixed = graphs.fixed_positions(shape)
    return any(shape["vertices"][p][0] not in touched for p in fixed)


def frame(k, shape, max_iter):
    r = k.r
    ghost = common.Ghost()
    Cut = common.opaque_edge_class(k, ghost)
    vs = [r.Vertex(vid, k.pose(T, "v%d" % i), fixed=f) for i, (vid, T, f) in enumerate(shape["vertices"])]
    es = [Cut(list(ids)) for _, ids, _ in shape["edges"]]
    g = r.Graph(es, vs)
    before = [v.pose.to_array() for v in vs]
    before_obj = [v.pose for v in vs]
    before_fixed = [v.fixed for v in vs]
    with common.counting_spsolve(k, ghost):
        ret = g.optimize(tol=k.nonneg("tol"), max_iter=max_iter, fix_first_pose=shape["fix_first_pose"], verbose=False)
    for p, v in enumerate(vs):
        want_fixed = before_fixed[p] or (p == 0 and shape["fix_first_pose"])
        k.check(v.fixed == want_fixed, "fixed flag of vertex at position %d is %s" % (p, want_fixed), (v.fixed, want_fixed))
        if want_fixed:
            k.check(type(v.pose) is type(before_obj[p]), "fixed vertex %d keeps its pose class" % p)
            k.same(v.pose.to_array(), before[p], "fixed vertex at position %d holds the same pose after %d update(s)" % (p, ghost.s))
    k.note("updates", ghost.s)


def obligations(r, tier, seed):
    obs = []
    fam = graphs.family(tier, seed, well_posed_only=False)
    fam = [s for s in fam if not s["pattern"].startswith("real")]
    # ---- frame under every outcome (fault-mode solver)
    chosen = []
    for i, s in enumerate(fam):
        if not graphs.fixed_positions(s):
            continue
        if tier == "quick" and has_se3(s) and i % 4:
            continue
        if tier == "quick" and i % 2 and not isolated_fixed(s):
            continue
        chosen.append(s)
    for s in chosen:
        for max_iter in ((1, 2) if tier == "quick" else (1, 2, 3)):
            if max_iter > 1 and (has_se3(s) or len(s["vertices"]) > 2 and tier == "quick"):
                continue
            def ob(k, s=s, max_iter=max_iter):
                frame(k, s, max_iter)
            obs.append(Ob("C06/frame-under-every-outcome/max_iter=%d/%s" % (max_iter, s["name"]), ob, scope="shape-bounded",
                          bound="shape %s, max_iter=%d" % (s["name"], max_iter), funcs=FUNCS, solver="fault", light=not has_se3(s), max_paths=2000))

    # ---- reduced problem (normal mode): shapes that C03's well-posed family does not contain, plus a thinned sample of the rest
    for i, s in enumerate(graphs.family(tier, seed, well_posed_only=False)):
        wp = graphs.well_posed(s)
        if wp and not isolated_fixed(s) and (i % 6):
            continue
        def ob2(k, s=s):
            out = run_one_iteration(k, s)
            if out is None:
                return
            ghost, vs, before, fixed_pos, dx, offsets, dims, before_fixed, g = out
            for p in fixed_pos:
                k.check(vs[p].fixed, "vertex at position %d is fixed" % p)
            for p, v in enumerate(vs):
                if p not in fixed_pos:
                    k.check(v.fixed == before_fixed[p], "fixed flag of free vertex %d untouched" % p)
        obs.append(Ob("C06/reduced-problem/%s" % s["name"], ob2, scope="shape-bounded", bound="shape " + s["name"],
                      funcs=FUNCS, solver="constrained", light=not has_se3(s), eager=(s["pattern"].startswith("real") and has_se3(s))))

    # ---- the fixed set is the set of vertices marked AT THE TIME OF THE CALL (histories: marks changed between calls)
    from gsv.specs import gn
    from gsv.kernel import POSE_C as _C

    from gsv.contracts.c03 import second_call_system, hist_shape


    def hist_unmark_constructed(k):
        sh = dict(hist_shape, vertices=[(0, "R2", True), (1, "R2", False), (2, "R2", True)])

        def remark(vs):
            vs[0].fixed = False            # created fixed, un-marked before the first call
        second_call_system(k, sh, None, remark)
    obs.append(Ob("C06/history/created-fixed-then-unmarked", hist_unmark_constructed, scope="shape-bounded", bound="3-vertex R2 cycle", funcs=FUNCS,
                  solver="constrained", light=True))

    def hist_two_calls(k):
        def remark(vs):
            vs[0].fixed = False            # vertex 0 was marked by the first call's fix_first_pose=True
            vs[2].fixed = True
        second_call_system(k, hist_shape, {"fix_first_pose": True}, remark)
    obs.append(Ob("C06/history/first-call-marks-vertex0-then-remarked", hist_two_calls, scope="shape-bounded", bound="3-vertex R2 cycle, two calls", funcs=FUNCS,
                  solver="constrained", light=True))

    def hist_first_pose_kept(k):
        # vertex 0 was marked by the first call's fix_first_pose=True and is still marked when the second call is made
        second_call_system(k, hist_shape, {"fix_first_pose": True}, lambda vs: None)
    obs.append(Ob("C06/history/first-call-marks-vertex0-still-marked", hist_first_pose_kept, scope="shape-bounded", bound="3-vertex R2 cycle, two calls", funcs=FUNCS,
                  solver="constrained", light=True))

    def hist_first_pose_marked_again(k):
        def remark(vs):
            vs[0].fixed = True             # the caller marks it (again) between the calls
            vs[1].fixed = True
        second_call_system(k, hist_shape, [({"fix_first_pose": True}, None), ({"fix_first_pose": False}, None)], remark)
    obs.append(Ob("C06/history/three-calls-marks-set-by-caller", hist_first_pose_marked_again, scope="shape-bounded", bound="3-vertex R2 cycle, three calls", funcs=FUNCS,
                  solver="constrained", light=True))

    def hist_mark_after_first(k):
        def remark(vs):
            vs[1].fixed = True             # an additional vertex marked between the calls
        second_call_system(k, hist_shape, {"fix_first_pose": False}, remark)
    obs.append(Ob("C06/history/vertex-marked-between-calls", hist_mark_after_first, scope="shape-bounded", bound="3-vertex R2 cycle, two calls", funcs=FUNCS,
                  solver="constrained", light=True))

    # ---- fix_first_pose fixes the FIRST LISTED vertex, whatever it is: a graph of built-in edges whose first vertex is a landmark (a
    #      file that lists VERTEX_XY lines first, a shuffled graph), under an arbitrary solver result
    for T, TL in (("SE2", "R2"), ("SE3", "R3")):
        def landmark_first(k, T=T, TL=TL):
            r_ = k.r
            ghost = common.Ghost()
            Cut = common.opaque_edge_class(k, ghost)
            vs = [r_.Vertex(5, k.pose(TL, "l")), r_.Vertex(1, k.pose(T, "a")), r_.Vertex(2, k.pose(T, "b"))]
            np = k.np

            class CutLandmark(r_.EdgeLandmark):      # a built-in landmark edge by class (what a change may look at); contributions cut
                def calc_chi2(self):
                    return k.nonneg("chi2_lmk%d" % self.vertex_ids[0])

                def calc_chi2_gradient_hessian(self):
                    dims = [v.pose.COMPACT_DIMENSIONALITY for v in self.vertices]
                    tag = "lmk%d" % self.vertex_ids[0]
                    g_ = [k.vec("g_%s_%d_" % (tag, i), d) for i, d in enumerate(dims)]
                    out_h = []
                    for i in range(2):
                        for j in range(i, 2):
                            out_h.append(((self.vertices[i].gradient_index, self.vertices[j].gradient_index), np.array(k.matrix("h_%s_%d%d" % (tag, i, j), dims[i], dims[j]))))
                    return (self.calc_chi2(), [(v.gradient_index, np.array(g_[i])) for i, v in enumerate(self.vertices)], out_h)
            mk_l = lambda ids: CutLandmark(ids, np.eye(POSE_C[TL]), k.pose(TL, "z%d" % ids[0]), r_.PoseSE2.identity() if T == "SE2" else k.pose(T, "off"), 0)
            es = [mk_l([1, 5]), mk_l([2, 5]), Cut([1, 2])]
            g = r_.Graph(es, vs)
            before = vs[0].pose.to_array()
            with common.counting_spsolve(k, ghost):
                g.optimize(tol=k.nonneg("tol"), max_iter=1, fix_first_pose=True, verbose=False)
            k.check(vs[0].fixed is True, "fix_first_pose marks the first listed vertex (a landmark here)", vs[0].fixed)
            k.check(vs[1].fixed is False and vs[2].fixed is False, "and no other vertex", (vs[1].fixed, vs[2].fixed))
            k.same(vs[0].pose.to_array(), before, "the first listed vertex holds the same pose after the update")
        obs.append(Ob("C06/frame-under-every-outcome/first-listed-vertex-is-a-landmark/%s" % T, landmark_first, scope="shape-bounded",
                      bound="one 3-vertex graph with built-in landmark edges, max_iter=1", funcs=FUNCS, solver="fault", light=True, max_paths=2000))

    # canaries
    def canary(k):
        s = {"vertices": [(0, "R2", True), (1, "R2", False)], "edges": [("cut", (0, 1), 2)], "fix_first_pose": False, "idset": 0}
        r_ = k.r
        ghost = common.Ghost()
        Cut = common.opaque_edge_class(k, ghost)
        vs = [r_.Vertex(0, k.pose("R2", "v0"), fixed=True), r_.Vertex(1, k.pose("R2", "v1"))]
        g = r_.Graph([Cut([0, 1])], vs)
        before = vs[1].pose.to_array()
        with common.counting_spsolve(k, ghost):
            g.optimize(tol=k.nonneg("tol"), max_iter=1, fix_first_pose=False, verbose=False)
        k.same(vs[1].pose.to_array(), before, "a FREE vertex does not move either")
    obs.append(Ob("C06/canary/free-vertex-does-not-move", canary, tier="canary", solver="fault", light=True))

    def canary2(k):
        r_ = k.r
        ghost = common.Ghost()
        Cut = common.opaque_edge_class(k, ghost)
        vs = [r_.Vertex(0, k.pose("R2", "v0")), r_.Vertex(1, k.pose("R2", "v1"))]
        g = r_.Graph([Cut([0, 1])], vs)
        with common.counting_spsolve(k, ghost):
            g.optimize(tol=k.nonneg("tol"), max_iter=1, fix_first_pose=True, verbose=False)
        k.check(vs[1].fixed, "fix_first_pose fixes the second vertex too")
    obs.append(Ob("C06/canary/fix-first-pose-fixes-everything", canary2, tier="canary", solver="fault", light=True))
    return obs


META = {
    "bounds": "shape family G3 incl. fault shapes; frame obligations for max_iter 1..2 (quick) / 1..3 (thorough) with an arbitrary solver result on every control path; numbers universal",
    "assumptions": ["a singular solve / NaN result is modelled as an unconstrained solver result",
                    "1..20 iterations: the frame argument is inductive (each update loop touches fixed vertices or it does not), proved for <= 3 iterations per shape"],
}
