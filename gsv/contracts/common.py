"""Helpers shared by the graph-level contracts: cutting edge methods at their contracts, ghost state."""
import contextlib


class Ghost:
    """Ghost state of one obligation run: number of pose updates applied so far (= solver calls)."""

    def __init__(self):
        self.s = 0
        self.solver_calls = []


@contextlib.contextmanager
def patched(obj, **attrs):
    saved = {}
    missing = object()
    for name, val in attrs.items():
        saved[name] = obj.__dict__.get(name, missing) if isinstance(obj, type) else getattr(obj, name, missing)
        setattr(obj, name, val)
    try:
        yield
    finally:
        for name, old in saved.items():
            if old is missing:
                try:
                    delattr(obj, name)
                except AttributeError:
                    pass
            else:
                setattr(obj, name, old)


def counting_spsolve(k, ghost, inner=None):
    """Wrap graph.spsolve so that the ghost update counter advances with every solve."""
    r = k.r
    orig = r.graph.spsolve

    def spsolve(A, b, *a, **kw):
        dx = (inner or orig)(A, b, *a, **kw)
        ghost.solver_calls.append((A, b, dx))
        ghost.s += 1
        return dx
    return patched(r.graph, spsolve=spsolve)


def opaque_edge_class(k, ghost, arity=2, name="Cut"):
    """An edge whose chi2 / gradient / Hessian contributions are opaque symbols of the ghost state (cut at
    BaseEdge.calc_chi2_gradient_hessian and calc_chi2): c_{e,s} >= 0, blocks of the right shapes."""
    r = k.r
    np = k.np
    cache = {}

    class CutEdge(r.BaseEdge):
        _n = [0]

        def __init__(self, vertex_ids, information=None, estimate=None, vertices=None):
            super().__init__(vertex_ids, information, estimate, vertices)
            CutEdge._n[0] += 1
            self.tag = "%s%d" % (name, CutEdge._n[0])

        def is_valid(self):
            return self._is_valid()

        def calc_error(self):
            raise AssertionError("cut edge: calc_error must not be reached")

        def _chi2(self):
            key = (self.tag, ghost.s)
            if key not in cache:
                cache[key] = k.nonneg("chi2_%s_s%d" % key)
            return cache[key]

        def calc_chi2(self):
            return self._chi2()

        def calc_chi2_gradient_hessian(self):
            dims = [v.pose.COMPACT_DIMENSIONALITY for v in self.vertices]
            key = (self.tag, ghost.s, "gh")
            if key not in cache:
                g = [k.vec("g_%s_s%d_%d_" % (self.tag, ghost.s, i), d) for i, d in enumerate(dims)]
                h = {}
                for i in range(len(dims)):
                    for j in range(i, len(dims)):
                        h[(i, j)] = k.matrix("h_%s_s%d_%d%d" % (self.tag, ghost.s, i, j), dims[i], dims[j])
                cache[key] = (g, h)
            g, h = cache[key]
            return (self._chi2(),
                    [(v.gradient_index, np.array(g[i])) for i, v in enumerate(self.vertices)],
                    [((self.vertices[i].gradient_index, self.vertices[j].gradient_index), np.array(h[(i, j)]))
                     for i in range(len(dims)) for j in range(i, len(dims))])
    return CutEdge
