"""C08 -- results do not depend on representation choices of the same physical graph.

  angle-2pi      PoseSE2(p, th + 2 pi k) is the same pose as PoseSE2(p, th) for every integer k
  quat-sign      negating the unit quaternion of a vertex, a measurement or an offset leaves every edge's chi^2, gradient
                 contribution and Hessian contribution unchanged -- for a FULL symbolic information matrix; the obligation
                 is split into .../Omega-block-diagonal and .../Omega-with-cross-terms so that a finding in the second cannot
                 hide a regression in the first
  permutation    permuting the vertex list (same fixed set, fix_first_pose=False), permuting the edge list, relabelling ids:
                 chi^2 equal, the system handed to the solver is the permuted system, every vertex (by identity) receives the
                 same update  (shape-bounded; "the solution of a permuted non-singular system is the permuted solution" enters
                 as a verified candidate, uniqueness assumed)
  split-edge     an edge replaced by two copies with half the information each: identical chi^2 and identical system
  scaling        all information scaled by c > 0: chi^2 scales by c, the system is c times the system (same solution)
"""
import itertools

from gsv.ob import Ob
from gsv.kernel import POSE_C
from gsv.specs import lie
from gsv.contracts import common, graphs
from gsv.contracts.c01 import make_landmark, ODO, LMK

BASE = "graphslam.edge.base_edge.BaseEdge"


def neg_quat(k, p):
    return k.r.PoseSE3([p[0], p[1], p[2]], [-p[3], -p[4], -p[5], -p[6]])


def info6(k, cross):
    """Symmetric 6x6 information; cross=False: translation/rotation blocks only."""
    rows = [[None] * 6 for _ in range(6)]
    for i in range(6):
        for j in range(i, 6):
            if not cross and (i < 3) != (j < 3):
                v = 0
            else:
                v = k.real("Om_%d_%d" % (i, j))
            rows[i][j] = rows[j][i] = v
    return k.np.array(rows)


def contributions(edge):
    chi2, grads, hess = edge.calc_chi2_gradient_hessian()
    return chi2, [g for _, g in grads], [h for _, h in hess]


def obligations(r, tier, seed):
    obs = []

    def angle(k):
        th = k.angle("th")
        kk = k.integer("k", -60, 60)
        x, y = k.real("x"), k.real("y")
        a = k.r.PoseSE2([x, y], th)
        b = k.r.PoseSE2([x, y], th + 2 * k.np.pi * kk)
        k.eq(b.to_array(), a.to_array(), "PoseSE2(p, th + 2 pi k) == PoseSE2(p, th)")
    obs.append(Ob("C08/angle-plus-multiple-of-2pi", angle, funcs=["graphslam.pose.se2.PoseSE2.__new__", "graphslam.util.neg_pi_to_pi"]))

    # ---- quaternion sign, SE(3) odometry
    for which in ("vertex0", "vertex1", "measurement", "vertex0+vertex1", "all-three"):
        def qsign_e(k, which=which):
            r_ = k.r
            p1, p2, z = k.pose("SE3", "p1"), k.pose("SE3", "p2"), k.pose("SE3", "z")

            def mk(a, b, m):
                return r_.EdgeOdometry([0, 1], k.np.eye(6), m, [r_.Vertex(0, a), r_.Vertex(1, b)])
            a = neg_quat(k, p1) if which in ("vertex0", "vertex0+vertex1", "all-three") else p1
            b = neg_quat(k, p2) if which in ("vertex1", "vertex0+vertex1", "all-three") else p2
            m = neg_quat(k, z) if which in ("measurement", "all-three") else z
            e0, e1 = mk(p1, p2, z), mk(a, b, m)
            # error and Jacobians unchanged  ==>  chi2, gradient and Hessian contributions unchanged for EVERY information
            # matrix (they are functions of e, J and Omega only), with or without translation-rotation cross terms
            k.eq(e1.calc_error(), e0.calc_error(), "error unchanged")
            J0, J1 = e0.calc_jacobians(), e1.calc_jacobians()
            k.eq(J1[0], J0[0], "jacobian of vertex 0 unchanged")
            k.eq(J1[1], J0[1], "jacobian of vertex 1 unchanged")
        obs.append(Ob("C08/quat-sign/odometry-SE3/%s/error-and-jacobians" % which, qsign_e,
                      funcs=[ODO + ".calc_error", ODO + ".calc_jacobians"], eager=True, max_paths=4000))

    for cross in ((False, True) if tier == "thorough" else ()):       # minutes each (10^4-term polynomials): thorough tier only;
        # in the quick tier the error-and-jacobians obligations above carry the statement for every information matrix
        def qsign(k, cross=cross):
            r_ = k.r
            p1, p2, z = k.pose("SE3", "p1"), k.pose("SE3", "p2"), k.pose("SE3", "z")
            Om = info6(k, cross)

            def mk(a, b, m):
                vs = [r_.Vertex(0, a), r_.Vertex(1, b)]
                vs[0].gradient_index, vs[1].gradient_index = 0, 6
                return r_.EdgeOdometry([0, 1], Om, m, vs)
            e0, e1 = mk(p1, p2, z), mk(p1, p2, neg_quat(k, z))
            c0, g0, h0 = contributions(e0)
            c1, g1, h1 = contributions(e1)
            k.eq(c1, c0, "chi2 unchanged")
            k.eq(g1, g0, "gradient contributions unchanged")
            k.eq(h1, h0, "Hessian contributions unchanged")
        obs.append(Ob("C08/quat-sign/odometry-SE3/measurement/contributions/%s" % ("Omega-with-cross-terms" if cross else "Omega-block-diagonal"), qsign,
                      funcs=[ODO + ".calc_error", ODO + ".calc_jacobians", BASE + ".calc_chi2_gradient_hessian"], eager=True, max_paths=4000))

    for which in ("pose", "offset", "both"):
        def qsign_l(k, which=which):
            r_ = k.r
            p, l, off, z = k.pose("SE3", "p"), k.pose("R3", "l"), k.pose("SE3", "off"), k.pose("R3", "z")
            Om = k.sym_matrix("Om", 3)

            def mk(a, o):
                vs = [r_.Vertex(0, a), r_.Vertex(1, l)]
                vs[0].gradient_index, vs[1].gradient_index = 0, 6
                return r_.EdgeLandmark([0, 1], Om, z, o, 0, vs)
            e0 = mk(p, off)
            e1 = mk(neg_quat(k, p) if which in ("pose", "both") else p, neg_quat(k, off) if which in ("offset", "both") else off)
            c0, g0, h0 = contributions(e0)
            c1, g1, h1 = contributions(e1)
            k.eq(e1.calc_error(), e0.calc_error(), "error unchanged")
            k.eq(c1, c0, "chi2 unchanged")
            k.eq(g1, g0, "gradient contributions unchanged")
            k.eq(h1, h0, "Hessian contributions unchanged")
        obs.append(Ob("C08/quat-sign/landmark-SE3-R3/%s" % which, qsign_l, funcs=[LMK + ".calc_error", LMK + ".calc_jacobians"], eager=True))

    def qsign_update(k):
        p = k.pose("SE3", "p")
        d = k.reals("d", 6)
        k.assume(d[3] * d[3] + d[4] * d[4] + d[5] * d[5] <= 1)
        darr = k.np.array(list(d))
        a, b = p + darr, neg_quat(k, p) + darr
        k.eq(lie.hom(k.np, "SE3", a), lie.hom(k.np, "SE3", b), "p [+] d and (-q) [+] d are the same rigid motion")
    obs.append(Ob("C08/quat-sign/update-gives-the-same-motion", qsign_update, funcs=["graphslam.pose.se3.PoseSE3.__add__"]))

    # ---- permutations / relabelling (cut edges)
    base = {"vertices": [(0, "SE2", False), (1, "R2", True), (2, "SE2", False)],
            "edges": [("cut", (0, 2), 3), ("cut", (2, 0), 3), ("cut", (0, 1), 2), ("cut", (2, 1), 2), ("cut", (2,), 1)],
            "fix_first_pose": False, "idset": 0}
    base3 = {"vertices": [(0, "SE3", False), (1, "R3", False), (2, "R2", True)], "edges": [("cut", (0, 1), 3), ("cut", (1, 2, 0), 2)],
             "fix_first_pose": False, "idset": 0}
    cases = []
    for bi, b in enumerate([base] + ([base3] if tier == "thorough" else [])):
        perms = list(itertools.permutations(range(3)))
        eperm_all = list(itertools.permutations(range(len(b["edges"]))))
        eperms = [tuple(range(len(b["edges"]))), tuple(reversed(range(len(b["edges"]))))] + ([eperm_all[7 % len(eperm_all)], eperm_all[-3]] if len(eperm_all) > 8 else [])
        relabels = [{0: 0, 1: 1, 2: 2}, {0: -7, 1: 2 ** 63 + 5, 2: 0}, {0: 30, 1: 10, 2: 20}]
        for vp in perms:
            for ep in eperms:
                for rl in relabels:
                    if vp == (0, 1, 2) and ep == eperms[0] and rl == relabels[0]:
                        continue
                    if tier == "quick" and (hash((vp, ep, tuple(rl.values()))) % 3):
                        continue
                    cases.append((bi, b, vp, ep, rl))
    for bi, b, vp, ep, rl in cases:
        def perm(k, b=b, vp=vp, ep=ep, rl=rl):
            gh1, gh2 = common.Ghost(), common.Ghost()
            g1, vs1, es1 = graphs.build(k, b, gh1, opaque_chi2=True)
            # the same physical graph: vertices listed in another order, edges listed in another order, ids renamed
            verts2 = [b["vertices"][i] for i in vp]
            sh2 = {"vertices": [(rl[vid], T, f) for vid, T, f in verts2],
                   "edges": [("cut", tuple(rl[i] for i in b["edges"][j][1]), b["edges"][j][2]) for j in ep],
                   "fix_first_pose": False, "idset": 0}
            g2, vs2, es2 = build_same_symbols(k, b, sh2, vp, ep, gh2)
            dims1 = [POSE_C[T] for _, T, _ in b["vertices"]]
            dims2 = [dims1[i] for i in vp]
            N = sum(dims1)
            off1 = [sum(dims1[:i]) for i in range(3)]
            off2 = [sum(dims2[:i]) for i in range(3)]
            # Pm maps unknown index of graph 2 to unknown index of graph 1
            pm = {}
            for pos2, i1 in enumerate(vp):
                for c in range(dims1[i1]):
                    pm[off2[pos2] + c] = off1[i1] + c
            k.eq(g2.calc_chi2(), g1.calc_chi2(), "chi2 equal")
            if k.mode == "sym":
                graphs.assume_small_rotations(k, b, call=0)
            cut = lambda self: _cut(self, k)
            with common.counting_spsolve(k, gh1), common.patched(k.r.Graph, calc_chi2=cut):
                g1.optimize(tol=0, max_iter=1, fix_first_pose=False, verbose=False)
            if k.mode == "sym":
                k.set_solver_model(_permuted_model(k, gh1, pm, N))
            with common.counting_spsolve(k, gh2), common.patched(k.r.Graph, calc_chi2=cut):
                g2.optimize(tol=0, max_iter=1, fix_first_pose=False, verbose=False)
            A1, b1, _ = gh1.solver_calls[0]
            A2, b2, _ = gh2.solver_calls[0]
            A1, b1, A2, b2 = k.dense(A1), k.dense(b1), k.dense(A2), k.dense(b2)
            k.eq([[A2[i, j] for j in range(N)] for i in range(N)], [[A1[pm[i], pm[j]] for j in range(N)] for i in range(N)], "system matrix is the permuted matrix")
            k.eq([b2[i] for i in range(N)], [b1[pm[i]] for i in range(N)], "right-hand side is the permuted right-hand side")
            if k.mode == "num":
                from gsv.kernel import Reject
                import numpy
                if numpy.linalg.cond(A1) > 1e8:
                    raise Reject("singular system")
            for pos2, i1 in enumerate(vp):
                T = b["vertices"][i1][1]
                k.eq(vs2[pos2].pose.to_array(), vs1[i1].pose.to_array(), "vertex (original position %d) receives the same update" % i1, atol=1e-7)
        obs.append(Ob("C08/permutation/base%d/vertices=%s/edges=%s/ids=%s" % (bi, "".join(map(str, vp)), "".join(map(str, ep)), "_".join(str(rl[i]) for i in range(3))),
                      perm, scope="shape-bounded", bound="one 3-vertex graph, one permutation", solver="constrained",
                      funcs=["graphslam.graph.Graph._initialize", "graphslam.graph.Graph._calc_chi2_gradient_hessian", "graphslam.graph.Graph.optimize"],
                      light=(bi == 0)))

    # ---- split edge / scaling
    def split(k):
        sh1 = {"vertices": [(0, "SE2", True), (1, "R2", False), (2, "SE2", False)], "edges": [("cut", (0, 2), 3), ("cut", (2, 1), 2)], "fix_first_pose": False, "idset": 0}
        gh1, gh2 = common.Ghost(), common.Ghost()
        g1, vs1, es1 = graphs.build(k, sh1, gh1)
        # second graph: the first edge replaced by two copies with half the information each (same e, J symbols)
        g2, vs2, es2 = graphs.build(k, sh1, gh2)
        e = es2[0]
        twin = type(e)(list(e.vertex_ids), e.information / 2, e.m)
        twin.tag = e.tag
        e.information = e.information / 2
        g2 = k.r.Graph([es2[0], es2[1], twin], vs2)
        k.eq(g2.calc_chi2(), g1.calc_chi2(), "chi2 equal")
        cut = lambda self: _cut(self, k)
        with common.counting_spsolve(k, gh1), common.patched(k.r.Graph, calc_chi2=cut):
            g1.optimize(tol=0, max_iter=1, fix_first_pose=False, verbose=False)
        with common.counting_spsolve(k, gh2), common.patched(k.r.Graph, calc_chi2=cut):
            g2.optimize(tol=0, max_iter=1, fix_first_pose=False, verbose=False)
        (A1, b1, _), (A2, b2, _) = gh1.solver_calls[0], gh2.solver_calls[0]
        k.eq(k.dense(A2), k.dense(A1), "same system matrix")
        k.eq(k.dense(b2), k.dense(b1), "same right-hand side")
        for v1, v2 in zip(vs1, vs2):
            k.same(v2.pose.to_array(), v1.pose.to_array(), "vertex %d: same result" % v1.id) if k.mode == "sym" else k.eq(v2.pose.to_array(), v1.pose.to_array(), "vertex %d: same result" % v1.id, atol=1e-6)
    obs.append(Ob("C08/split-edge-into-two-halves", split, scope="shape-bounded", bound="one 3-vertex graph", solver="functional", light=True,
                  funcs=["graphslam.graph._Chi2GradientHessian.update", BASE + ".calc_chi2_gradient_hessian"]))

    def scaling(k):
        sh1 = {"vertices": [(0, "SE2", True), (1, "R2", False), (2, "SE2", False)], "edges": [("cut", (0, 2), 3), ("cut", (2, 1), 2), ("cut", (1, 0), 2)], "fix_first_pose": False, "idset": 0}
        c = k.pos("c")
        gh1, gh2 = common.Ghost(), common.Ghost()
        g1, vs1, es1 = graphs.build(k, sh1, gh1)
        g2, vs2, es2 = graphs.build(k, sh1, gh2)
        for e in es2:
            e.information = c * e.information
        k.eq(g2.calc_chi2(), c * g1.calc_chi2(), "chi2 scales by c")
        g1._calc_chi2_gradient_hessian()
        g2._calc_chi2_gradient_hessian()
        k.eq(k.dense(g2._hessian), c * k.dense(g1._hessian), "H scales by c (no fixed vertex flagged yet)")
        k.eq(k.dense(g2._gradient), c * k.dense(g1._gradient), "b scales by c")
        cut = lambda self: _cut(self, k)
        with common.counting_spsolve(k, gh1), common.patched(k.r.Graph, calc_chi2=cut):
            g1.optimize(tol=0, max_iter=1, fix_first_pose=False, verbose=False)
        (A1, b1, dx1) = gh1.solver_calls[0]
        N = len(dx1)
        if k.mode == "sym":
            k.set_solver_model(_scaled_model(k, gh1, c, N))
        with common.counting_spsolve(k, gh2), common.patched(k.r.Graph, calc_chi2=cut):
            g2.optimize(tol=0, max_iter=1, fix_first_pose=False, verbose=False)
        if k.mode == "num":
            from gsv.kernel import Reject
            import numpy
            if numpy.linalg.cond(k.dense(A1)) > 1e8:
                raise Reject("singular system")
        for v1, v2 in zip(vs1, vs2):
            k.eq(v2.pose.to_array(), v1.pose.to_array(), "vertex %d: same optimum step" % v1.id, atol=1e-6)
    obs.append(Ob("C08/scaling-all-information", scaling, scope="shape-bounded", bound="one 3-vertex graph", solver="constrained", light=True,
                  funcs=["graphslam.graph.Graph._calc_chi2_gradient_hessian", BASE + ".calc_chi2_gradient_hessian"]))

    def scaling_existing(k):
        # the information matrices of an EXISTING graph of built-in edges are re-weighted (replaced for one edge, scaled in place for
        # the others): chi2 as the graph reports it scales accordingly, on every later query
        r_ = k.r
        vs = [r_.Vertex(0, k.pose("SE2", "a")), r_.Vertex(1, k.pose("R2", "l")), r_.Vertex(2, k.pose("SE2", "b"))]
        es = [r_.EdgeOdometry([0, 2], k.sym_matrix("O1", 3), k.pose("SE2", "z1")), r_.EdgeOdometry([2, 0], k.sym_matrix("O2", 3), k.pose("SE2", "z2")),
              r_.EdgeLandmark([2, 1], k.sym_matrix("O3", 2), k.pose("R2", "z3"), k.pose("SE2", "off"), 0)]
        g = r_.Graph(es, vs)
        before = g.calc_chi2()
        c = k.pos("c")
        es[0].information = c * es[0].information
        for e in es[1:]:
            if k.mode == "sym" or e.information.dtype.kind == "f":
                e.information[...] = c * e.information          # in place
            else:
                e.information = c * e.information               # (an integer-typed matrix cannot hold the scaled values in place)
        k.eq(g.calc_chi2(), c * before, "Graph.calc_chi2() scales by c after the information matrices of the existing graph were scaled")
        k.eq(g.calc_chi2(), c * before, "... and on a second query")
        tot = 0
        for e in es:
            tot = tot + e.calc_chi2()
        k.eq(g.calc_chi2(), tot, "... and equals the sum of the edges' own chi2")
    obs.append(Ob("C08/scaling-all-information/existing-graph-of-built-in-edges", scaling_existing, scope="shape-bounded", bound="one 3-vertex, 3-edge SE2/R2 graph",
                  funcs=["graphslam.graph.Graph.calc_chi2", BASE + ".calc_chi2"]))

    # ---- scaling and the stopping rule: the documented rule looks at the RELATIVE decrease only, so a run on the graph with
    #      all information scaled by c > 0 (chi2 values c*c_s) takes the same decisions.  The chi2 values of C12's obligation are
    #      arbitrary non-negative reals, so "scaled by c" is a substitution instance of it: the same obligation is stated here
    #      with the chi2 symbols explicitly multiplied by a symbolic c.
    from gsv.contracts import c12
    for max_iter in ((2, 3) if tier == "quick" else (2, 3, 4)):
        def scale_rule(k, max_iter=max_iter):
            c = k.pos("c")
            ghost = common.Ghost()
            g, es, vs = c12.make_graph(k, ghost, 2)
            for e in es:
                base = e._chi2
                e._chi2 = (lambda base=base: c * base())
            tol = k.nonneg("tol")
            with common.counting_spsolve(k, ghost):
                ret = g.optimize(tol=tol, max_iter=max_iter, verbose=False)
            s_ = ghost.s
            cs = [c * c12.chi2_sum_raw(es, i, ghost) for i in range(max_iter + 1)]
            for i in range(1, s_):
                k.holds(c12.neg(k, c12.must_rel(cs[i - 1], cs[i], tol)), "scaled run: comparison %d did not have to stop" % i)
            if s_ < max_iter:
                k.holds(c12.may_rel(cs[s_ - 1], cs[s_], tol), "scaled run: early stop only where the relative rule allows it")
            else:
                k.implies(ret.converged, c12.may_rel(cs[s_ - 1], cs[s_], tol), "scaled run: converged only where the relative rule allows it")
                k.implies(c12.neg(k, ret.converged), c12.neg(k, c12.must_rel(cs[s_ - 1], cs[s_], tol)), "scaled run: not converged only where the rule does not demand it")
        obs.append(Ob("C08/scaling/stopping-rule-is-relative/max_iter=%d" % max_iter, scale_rule, scope="shape-bounded", bound="max_iter=%d, 2 cut edges" % max_iter,
                      solver="functional", light=True, funcs=["graphslam.graph.Graph.optimize"], max_paths=3000))

    def canary(k):
        r_ = k.r
        p, l, off, z = k.pose("SE3", "p"), k.pose("R3", "l"), k.pose("SE3", "off"), k.pose("R3", "z")
        offc = r_.PoseSE3([off[0], off[1], off[2]], [-off[3], -off[4], -off[5], off[6]])      # conjugate: a DIFFERENT rotation
        e0 = make_landmark(k, "SE3", "R3", [p, l], z, off)
        e1 = make_landmark(k, "SE3", "R3", [p, l], z, offc)
        k.eq(e1.calc_error(), e0.calc_error(), "error unchanged under conjugation of the offset quaternion")
    obs.append(Ob("C08/canary/conjugate-is-not-the-same-rotation", canary, tier="canary", eager=True))

    def canary2(k):
        th = k.angle("th")
        a = k.r.PoseSE2([0, 0], th)
        b = k.r.PoseSE2([0, 0], th + k.np.pi)
        k.eq(b.to_array(), a.to_array(), "adding pi is the same pose")
    obs.append(Ob("C08/canary/angle-plus-pi", canary2, tier="canary"))
    return obs


def _cut(graph, k):
    graph._chi2 = k.nonneg("chi2_final")
    return graph._chi2


def build_same_symbols(k, shape1, shape2, vp, ep, ghost):
    """Build shape2 (a permutation/relabelling of shape1) so that each vertex and each edge carries the SAME symbols as its
    counterpart in shape1: vertex poses named by ORIGINAL position, edge tags by ORIGINAL edge index."""
    r = k.r
    Cut = graphs.cut_error_edge_class(k, ghost, None, True)
    vs = []
    for pos2, i1 in enumerate(vp):
        vid, T, f = shape2["vertices"][pos2]
        vs.append(r.Vertex(vid, k.pose(T, "v%d" % i1), fixed=f))
    es = []
    for pos2, j1 in enumerate(ep):
        _, ids, m = shape2["edges"][pos2]
        e = Cut(list(ids), k.spd_matrix("Om%d" % j1, m), m)
        e.tag = "E%d" % (j1 + 1)
        es.append(e)
    return r.Graph(es, vs), vs, es


def _verified_candidate_model(k, gh1, make_candidate, N, multipliers=None):
    from gsv.symkernel import linear_membership
    from gsv.engine import sym as S
    from gsv.engine import symnp

    def model(A, b, call):
        st = S.state()
        dx1 = gh1.solver_calls[0][2]
        cand = make_candidate(dx1)
        eqs1 = list(st.memo.get("solver_eqs", []))
        ok = True
        for i in range(N):
            row = S.Sym(0)
            for j in range(N):
                a = A[i, j]
                if not a.n.is_zero():
                    row = row + a * cand[j]
            row = row - b[i]
            if row.d is not None or not linear_membership(st, row.n, eqs1, multipliers=multipliers):
                ok = False
                break
        if ok:
            st.notes.append(("solver", "candidate verified to solve the second system"))
            return symnp.array(cand)
        st.notes.append(("solver", "candidate does NOT solve the second system -- unconstrained result"))
        return symnp.array([S.Sym(S.Poly.var(st.var("dxm%d_%d" % (call, i)))) for i in range(N)])
    return model


def _permuted_model(k, gh1, pm, N):
    return _verified_candidate_model(k, gh1, lambda dx1: [dx1[pm[i]] for i in range(N)], N)


def _scaled_model(k, gh1, c, N):
    return _verified_candidate_model(k, gh1, lambda dx1: [dx1[i] for i in range(N)], N, multipliers=[c])


META = {
    "bounds": "edge-level obligations (angle, quaternion sign) unbounded; permutations/relabellings of one 3-vertex, 5-edge graph (a seeded third of the 6 x 4 x 3 combinations in quick, all and a second SE3/R3/R2 graph in thorough); split-edge and scaling on one graph each; numbers universal",
    "assumptions": ["a non-singular linear system has exactly one solution (the permuted / unscaled candidate is verified to solve the second system, uniqueness is assumed)",
                    "the edges of the permuted graph report the same e and J (they are the same edge objects' data)"],
}
