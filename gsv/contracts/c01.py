"""C01 -- analytic edge Jacobians are the exact derivative of the edge error.

Top-level post-condition, taken from the property statement: for every built-in edge typing and each of its two
vertices,   edge.calc_jacobians()[k]  ==  d/d(delta) edge.calc_error()  with vertex k's pose replaced by pose [+] delta,
at delta = 0.  Both sides come from running the *real* code: the left side is calc_jacobians() on symbolic operands, the
right side is calc_error() on the real box-plus of a first-order jet.  Equality is decided modulo the unit-quaternion /
cos-sin ideals, i.e. for every unit quaternion (w<0, w=0, 180 degrees are points of the variety) and every angle.  The
SE(2) wrap contributes an integer ghost that is locally constant -- exactly the property's exclusion of the measure-zero
set where the angular error itself wraps.
"""
from gsv.ob import Ob, TYPES
from gsv.kernel import POSE_C, POSE_N

LANDMARK_TYPINGS = [("SE2", "R2"), ("SE3", "R3"), ("R2", "R2"), ("R3", "R3")]
ODO = "graphslam.edge.edge_odometry.EdgeOdometry"
LMK = "graphslam.edge.edge_landmark.EdgeLandmark"


def make_odometry(k, T, poses, est):
    r = k.r
    vs = [r.Vertex(0, poses[0]), r.Vertex(1, poses[1])]
    return r.EdgeOdometry([0, 1], k.np.eye(POSE_C[T]), est, vs)


def make_landmark(k, TP, TL, poses, est, off):
    r = k.r
    vs = [r.Vertex(0, poses[0]), r.Vertex(1, poses[1])]
    return r.EdgeLandmark([0, 1], k.np.eye(POSE_C[TL]), est, off, 0, vs)


def err_wrap_rows(kind, T):
    return (2,) if (kind == "odometry" and T == "SE2") else ()


# ---- edge results depend on the values the vertices / measurement / information / offset hold WHEN the method is called.
#      The objects are mutable and shared (a vertex pose is replaced by every optimizer update; arrays can be assigned in
#      place), so: query the edge in a first, concrete state, change everything (by replacement or in place), query again, and
#      compare with a freshly built edge that never saw the first state.  Shared by C01 (Jacobians) and C02 (error, chi2).
FIRST_STATE = {
    "R2": ([0.5, -1.25], [2.0, 0.75], [0.25, 4.0]), "R3": ([0.5, -1.25, 3.0], [2.0, 0.75, -1.0], [0.25, 4.0, 1.5]),
    "SE2": ([0.5, -1.25, 0.75], [2.0, 0.75, -2.5], [0.25, 4.0, 1.0]),
    "SE3": ([0.5, -1.25, 3.0, 0.5, 0.5, 0.5, 0.5], [2.0, 0.75, -1.0, 0.5, -0.5, 0.5, -0.5], [0.25, 4.0, 1.5, -0.5, 0.5, 0.5, 0.5]),
}


def requery(k, kind, TP, TL, how, want):
    r = k.r
    np = k.np
    raw_p, raw_l, raw_z = FIRST_STATE[TP][0], FIRST_STATE[TL][1], FIRST_STATE[TL if kind == "landmark" else TP][2]
    p0, l0, z0 = k.pose_from_raw(TP, raw_p), k.pose_from_raw(TL, raw_l), k.pose_from_raw(TL if kind == "landmark" else TP, raw_z)
    m = POSE_C[TL]
    O0 = np.array([[float(1 + (i == j) * 2 + 0.25 * (i + j)) for j in range(m)] for i in range(m)])
    vs = [r.Vertex(0, p0), r.Vertex(1, l0)]
    if kind == "odometry":
        e = r.EdgeOdometry([0, 1], O0, z0, vs)
    else:
        off0 = k.pose_from_raw(TP, FIRST_STATE[TP][2])
        e = r.EdgeLandmark([0, 1], O0, z0, off0, 0, vs)
    first = (e.calc_error(), e.calc_chi2(), e.calc_jacobians(), e.calc_chi2_gradient_hessian())
    p, l = k.pose(TP, "p"), k.pose(TL, "l")
    z = k.pose(TL if kind == "landmark" else TP, "z")
    O = k.sym_matrix("O", m)
    off = k.pose(TP, "off") if kind == "landmark" else None
    if how == "replaced":
        vs[0].pose, vs[1].pose = p.copy(), l.copy()
        e.estimate, e.information = z.copy(), np.array(O)
        if off is not None:
            e.offset = off.copy()
    else:
        vs[0].pose[:] = p.to_array()
        vs[1].pose[:] = l.to_array()
        e.estimate[:] = z.to_array()
        e.information[:] = np.array(O)
        if off is not None:
            e.offset[:] = off.to_array()
    vs2 = [r.Vertex(0, p), r.Vertex(1, l)]
    fresh = r.EdgeOdometry([0, 1], np.array(O), z, vs2) if kind == "odometry" else r.EdgeLandmark([0, 1], np.array(O), z, off, 0, vs2)
    tail = " after the operands were %s == the result of a fresh edge with the new values" % how
    if "error" in want:
        k.eq(e.calc_error(), fresh.calc_error(), "calc_error()" + tail)
        k.eq(e.calc_chi2(), fresh.calc_chi2(), "calc_chi2()" + tail)
    if "jacobians" in want:
        got, ref = e.calc_jacobians(), fresh.calc_jacobians()
        k.check(len(got) == len(ref) == 2, "two Jacobians")
        for i, (a, b) in enumerate(zip(got, ref)):
            k.eq(a, b, "calc_jacobians()[%d]" % i + tail)
    k.check(len(first) == 4, "every query was made in the first state")


def obligations(r, tier, seed):
    obs = []
    for T in TYPES:
        def odo(k, T=T):
            p1, p2, z = k.pose(T, "p1"), k.pose(T, "p2"), k.pose(T, "z")
            e = make_odometry(k, T, [p1, p2], z)
            k.check(e.is_valid(), "edge-valid")
            if T == "SE3" and k.mode == "num":
                # the error picks the representative of the error quaternion with positive scalar part: it is discontinuous on
                # the measure-zero surface w = 0, and the finite-difference stencil of the numeric reference must not cross it
                k.assume(abs(float((z - (p2 - p1))[6])) > 0.3, "away from the sign-change surface of the error quaternion")
            J = e.calc_jacobians()
            k.check(len(J) == 2, "two-jacobians")
            c = POSE_C[T]
            f0 = lambda d: make_odometry(k, T, [p1 + d, p2], z).calc_error()
            f1 = lambda d: make_odometry(k, T, [p1, p2 + d], z).calc_error()
            k.eq(J[0], k.deriv(f0, c, wrap_rows=err_wrap_rows("odometry", T)), "vertex0")
            k.eq(J[1], k.deriv(f1, c, wrap_rows=err_wrap_rows("odometry", T)), "vertex1")
        obs.append(Ob("C01/odometry/%s" % T, odo, funcs=[ODO + ".calc_error", ODO + ".calc_jacobians"]))

    for TP, TL in LANDMARK_TYPINGS:
        def lmk(k, TP=TP, TL=TL):
            p, l = k.pose(TP, "p"), k.pose(TL, "l")
            off, z = k.pose(TP, "off"), k.pose(TL, "z")
            e = make_landmark(k, TP, TL, [p, l], z, off)
            k.check(e.is_valid(), "edge-valid")
            J = e.calc_jacobians()
            k.check(len(J) == 2, "two-jacobians")
            f0 = lambda d: make_landmark(k, TP, TL, [p + d, l], z, off).calc_error()
            f1 = lambda d: make_landmark(k, TP, TL, [p, l + d], z, off).calc_error()
            k.eq(J[0], k.deriv(f0, POSE_C[TP]), "vertex0")
            k.eq(J[1], k.deriv(f1, POSE_C[TL]), "vertex1")
        obs.append(Ob("C01/landmark/%s-%s" % (TP, TL), lmk, funcs=[LMK + ".calc_error", LMK + ".calc_jacobians"]))

    for kind, TP, TL in [("odometry", T, T) for T in TYPES] + [("landmark", a, b) for a, b in LANDMARK_TYPINGS]:
        for how in ("replaced", "changed-in-place"):
            if tier == "quick" and how == "replaced" and TP != "SE3":
                continue
            def rq(k, kind=kind, TP=TP, TL=TL, how=how):
                requery(k, kind, TP, TL, how, ("jacobians",))
            obs.append(Ob("C01/%s/%s/jacobians-depend-on-the-current-values-only/%s" % (kind, TP if kind == "odometry" else TP + "-" + TL, how), rq,
                          funcs=[(ODO if kind == "odometry" else LMK) + ".calc_jacobians"], eager=(TP == "SE3")))

    # canaries
    def canary_vertex_swap(k):
        p1, p2, z = k.pose("SE2", "p1"), k.pose("SE2", "p2"), k.pose("SE2", "z")
        e = make_odometry(k, "SE2", [p1, p2], z)
        J = e.calc_jacobians()
        f1 = lambda d: make_odometry(k, "SE2", [p1, p2 + d], z).calc_error()
        k.eq(J[0], k.deriv(f1, 3, wrap_rows=(2,)), "jacobian-of-wrong-vertex")
    obs.append(Ob("C01/canary/odometry-SE2-wrong-vertex", canary_vertex_swap, tier="canary"))

    def canary_lmk(k):
        p, l = k.pose("SE3", "p"), k.pose("R3", "l")
        off, z = k.pose("SE3", "off"), k.pose("R3", "z")
        e = make_landmark(k, "SE3", "R3", [p, l], z, off)
        J = e.calc_jacobians()
        f1 = lambda d: make_landmark(k, "SE3", "R3", [p, l + d], z, off).calc_error()
        k.eq(-J[1], k.deriv(f1, 3), "negated")
    obs.append(Ob("C01/canary/landmark-SE3-negated", canary_lmk, tier="canary"))
    return obs
