"""C01 -- analytic edge Jacobians are the exact derivative of the edge error.

Top-level post-condition, taken from the property statement: for every built-in edge typing and each of its two
vertices,   edge.calc_jacobians()[k]  ==  d/d(delta) edge.calc_error()  with vertex k's pose replaced by pose [+] delta,
at delta = 0.  Both sides come from running the *real* code: the left side is calc_jacobians() on symbolic operands, the
right side is calc_error() on the real box-plus of a first-order jet.  Equality is decided modulo the unit-quaternion /
cos-sin ideals, i.e. for every unit quaternion (w<0, w=0, 180 degrees are points of the variety) and every angle.  The
SE(2) wrap contributes an integer ghost that is locally constant -- exactly the property's exclusion of the measure-zero
set where the angular error itself wraps.
"""
from gsv.ob import Ob, TYPES
from gsv.kernel import POSE_C, POSE_N

LANDMARK_TYPINGS = [("SE2", "R2"), ("SE3", "R3"), ("R2", "R2"), ("R3", "R3")]
ODO = "graphslam.edge.edge_odometry.EdgeOdometry"
LMK = "graphslam.edge.edge_landmark.EdgeLandmark"


def make_odometry(k, T, poses, est):
    r = k.r
    vs = [r.Vertex(0, poses[0]), r.Vertex(1, poses[1])]
    return r.EdgeOdometry([0, 1], k.np.eye(POSE_C[T]), est, vs)


def make_landmark(k, TP, TL, poses, est, off):
    r = k.r
    vs = [r.Vertex(0, poses[0]), r.Vertex(1, poses[1])]
    return r.EdgeLandmark([0, 1], k.np.eye(POSE_C[TL]), est, off, 0, vs)


def err_wrap_rows(kind, T):
    return (2,) if (kind == "odometry" and T == "SE2") else ()


def obligations(r, tier, seed):
    obs = []
    for T in TYPES:
        def odo(k, T=T):
            p1, p2, z = k.pose(T, "p1"), k.pose(T, "p2"), k.pose(T, "z")
            e = make_odometry(k, T, [p1, p2], z)
            k.check(e.is_valid(), "edge-valid")
            if T == "SE3" and k.mode == "num":
                # the error picks the representative of the error quaternion with positive scalar part: it is discontinuous on
                # the measure-zero surface w = 0, and the finite-difference stencil of the numeric reference must not cross it
                k.assume(abs(float((z - (p2 - p1))[6])) > 0.3, "away from the sign-change surface of the error quaternion")
            J = e.calc_jacobians()
            k.check(len(J) == 2, "two-jacobians")
            c = POSE_C[T]
            f0 = lambda d: make_odometry(k, T, [p1 + d, p2], z).calc_error()
            f1 = lambda d: make_odometry(k, T, [p1, p2 + d], z).calc_error()
            k.eq(J[0], k.deriv(f0, c, wrap_rows=err_wrap_rows("odometry", T)), "vertex0")
            k.eq(J[1], k.deriv(f1, c, wrap_rows=err_wrap_rows("odometry", T)), "vertex1")
        obs.append(Ob("C01/odometry/%s" % T, odo, funcs=[ODO + ".calc_error", ODO + ".calc_jacobians"]))

    for TP, TL in LANDMARK_TYPINGS:
        def lmk(k, TP=TP, TL=TL):
            p, l = k.pose(TP, "p"), k.pose(TL, "l")
            off, z = k.pose(TP, "off"), k.pose(TL, "z")
            e = make_landmark(k, TP, TL, [p, l], z, off)
            k.check(e.is_valid(), "edge-valid")
            J = e.calc_jacobians()
            k.check(len(J) == 2, "two-jacobians")
            f0 = lambda d: make_landmark(k, TP, TL, [p + d, l], z, off).calc_error()
            f1 = lambda d: make_landmark(k, TP, TL, [p, l + d], z, off).calc_error()
            k.eq(J[0], k.deriv(f0, POSE_C[TP]), "vertex0")
            k.eq(J[1], k.deriv(f1, POSE_C[TL]), "vertex1")
        obs.append(Ob("C01/landmark/%s-%s" % (TP, TL), lmk, funcs=[LMK + ".calc_error", LMK + ".calc_jacobians"]))

    # canaries
    def canary_vertex_swap(k):
        p1, p2, z = k.pose("SE2", "p1"), k.pose("SE2", "p2"), k.pose("SE2", "z")
        e = make_odometry(k, "SE2", [p1, p2], z)
        J = e.calc_jacobians()
        f1 = lambda d: make_odometry(k, "SE2", [p1, p2 + d], z).calc_error()
        k.eq(J[0], k.deriv(f1, 3, wrap_rows=(2,)), "jacobian-of-wrong-vertex")
    obs.append(Ob("C01/canary/odometry-SE2-wrong-vertex", canary_vertex_swap, tier="canary"))

    def canary_lmk(k):
        p, l = k.pose("SE3", "p"), k.pose("R3", "l")
        off, z = k.pose("SE3", "off"), k.pose("R3", "z")
        e = make_landmark(k, "SE3", "R3", [p, l], z, off)
        J = e.calc_jacobians()
        f1 = lambda d: make_landmark(k, "SE3", "R3", [p, l + d], z, off).calc_error()
        k.eq(-J[1], k.deriv(f1, 3), "negated")
    obs.append(Ob("C01/canary/landmark-SE3-negated", canary_lmk, tier="canary"))
    return obs
