"""C15 -- queries are pure; optimize changes only vertex poses.

"State" is what the statement lists: every array reachable as a vertex pose, an edge estimate, offset or information matrix,
a parameter value; the fixed flags, ids, vertex_ids, offset_id, and the membership and order of the vertex / edge lists and
the edge -> vertex binding.  Private caches (Graph._chi2/_gradient/_hessian/_fixed_gradient_indices, Vertex.gradient_index)
are outside it.

Frame contracts, decided two ways at once:
  * snapshot: every state array holds IDENTICAL terms (bit-identical floats numerically) before and after the call, every
    discrete component is unchanged, edge.vertices still are the same vertex objects;
  * write log (symbolic interpretation): the numpy shim logs every write (storage id, position); no write hit a storage that
    is reachable from the state -- this also rules out aliasing (e.g. the accumulator adopting an edge's array).
Determinism: a second call returns identical terms.  Because a pure call leaves the state IDENTICAL, any interleaving of
pure queries is equivalent to none -- the induction behind "all interleavings up to length 50" -- and seeded query
sequences are run as well.
The one float-only aspect (restoring an SE(2) pose at the wrap boundary) is a numeric-only obligation at the exact corner
inputs, reported as bounded, never as proved.
"""
import math
import operator
import os
import random
import tempfile

from gsv.ob import Ob, TYPES
from gsv.kernel import POSE_C, POINT_OF
from gsv.contracts import common, graphs
from gsv.contracts.c01 import make_odometry, make_landmark, LANDMARK_TYPINGS

FUNCS = ["graphslam.edge.base_edge.BaseEdge.calc_chi2", "graphslam.edge.base_edge.BaseEdge.calc_chi2_gradient_hessian",
         "graphslam.edge.base_edge.BaseEdge.calc_jacobians", "graphslam.edge.base_edge.BaseEdge._calc_jacobian",
         "graphslam.edge.edge_odometry.EdgeOdometry.calc_error", "graphslam.edge.edge_odometry.EdgeOdometry.calc_jacobians",
         "graphslam.edge.edge_landmark.EdgeLandmark.calc_error", "graphslam.edge.edge_landmark.EdgeLandmark.calc_jacobians",
         "graphslam.graph.Graph.calc_chi2", "graphslam.graph.Graph.optimize", "graphslam.graph.Graph.equals", "graphslam.graph.Graph.to_g2o",
         "graphslam.graph._Chi2GradientHessian.update", "graphslam.pose.base_pose.BasePose.__iadd__"]


class Frame:
    """Snapshot of the listed state plus (symbolically) the set of storages it lives in."""

    def __init__(self, k, vertices=(), edges=(), extra_arrays=()):
        self.k = k
        self.vertices = list(vertices)
        self.edges = list(edges)
        self.extra = list(extra_arrays)
        self.arrays = []
        for i, v in enumerate(self.vertices):
            self.arrays.append(("vertex %d pose" % i, v.pose))
        for j, e in enumerate(self.edges):
            self.arrays.append(("edge %d information" % j, e.information))
            if hasattr(e.estimate, "shape") and getattr(e.estimate, "shape", ()) != ():
                self.arrays.append(("edge %d estimate" % j, e.estimate))
            if getattr(e, "offset", None) is not None:
                self.arrays.append(("edge %d offset" % j, e.offset))
        for n, a in enumerate(self.extra):
            self.arrays.append(("operand %d" % n, a))
        np = k.np
        self.values = [np.array(a) for _, a in self.arrays]
        self.objects = [a for _, a in self.arrays]
        self.discrete = self._discrete()
        self.sids = None
        if k.mode == "sym":
            from gsv.engine import symnp
            self.sids = {a._st.sid for _, a in self.arrays}
            symnp.WRITE_LOG.clear()
            symnp.LOG_WRITES[0] = True

    def _discrete(self):
        d = []
        for v in self.vertices:
            d.append(("v", v.id, v.fixed, type(v.pose).__name__))
        for e in self.edges:
            d.append(("e", type(e).__name__, tuple(e.vertex_ids), getattr(e, "offset_id", "n/a"),
                      tuple(id(x) for x in (e.vertices or ())), None if hasattr(e.estimate, "shape") else repr(e.estimate)))
        return d

    def unchanged(self, label, allow_pose_rebinding=False):
        k = self.k
        if k.mode == "sym":
            from gsv.engine import symnp
            symnp.LOG_WRITES[0] = False
            hits = [w for w in symnp.WRITE_LOG if w[0] in self.sids]
            k.check(not hits, label + ": no write to any storage reachable from the state (write log)", hits[:3])
        k.check(self._discrete() == self.discrete, label + ": ids, flags, classes, bindings unchanged")
        now = [("vertex %d pose" % i, v.pose) for i, v in enumerate(self.vertices)]
        for j, e in enumerate(self.edges):
            now.append(("edge %d information" % j, e.information))
            if hasattr(e.estimate, "shape") and getattr(e.estimate, "shape", ()) != ():
                now.append(("edge %d estimate" % j, e.estimate))
            if getattr(e, "offset", None) is not None:
                now.append(("edge %d offset" % j, e.offset))
        for n, a in enumerate(self.extra):
            now.append(("operand %d" % n, a))
        k.check(len(now) == len(self.arrays), label + ": same set of state arrays")
        for (name, arr), old_val, old_obj in zip(now, self.values, self.objects):
            if not allow_pose_rebinding or "pose" not in name:
                k.check(arr is old_obj, label + ": %s is still the same array object" % name)
            k.same(arr, old_val, label + ": %s holds identical values" % name)


def snapshot(k, x):
    """Deep copy of the numeric content of a (nested) result."""
    if isinstance(x, (list, tuple)):
        return [snapshot(k, y) for y in x]
    if isinstance(x, k.np.ndarray):
        return k.np.array(x)
    return x


def twice(k, f, label):
    a = f()
    first = snapshot(k, a)            # the values the first call returned, copied BEFORE the second call
    b = f()
    k.same(b, first, label + ": a second call returns identical values")
    k.same(a, first, label + ": what the first call returned is not modified by the second call")
    return a


def flat_result(x):
    """Turn the (nested) result of calc_chi2_gradient_hessian etc. into nested lists of arrays / scalars."""
    if isinstance(x, tuple) or isinstance(x, list):
        return [flat_result(y) for y in x]
    return x


def numeric_edge_classes(k):
    r = k.r
    key = "_c15_classes"
    if hasattr(r, key):
        return getattr(r, key)
    np = k.np

    class DistanceEdge(r.BaseEdge):          # only calc_error: numerical Jacobians
        def calc_error(self):
            return np.array([np.linalg.norm((self.vertices[0].pose - self.vertices[1].pose).position) - self.estimate])

        def is_valid(self):
            return self._is_valid()

    class PriorEdge(r.BaseEdge):
        def calc_error(self):
            return self.vertices[0].pose.to_compact() - self.estimate

        def is_valid(self):
            return self._is_valid()

    class TripleEdge(r.BaseEdge):            # 3 vertices: the middle one's position against the midpoint of the others
        def calc_error(self):
            a, b, c = (v.pose.position for v in self.vertices)
            return b - (a + c) / 2.0

        def is_valid(self):
            return self._is_valid()
    setattr(r, key, (DistanceEdge, PriorEdge, TripleEdge))
    return getattr(r, key)


def obligations(r, tier, seed):
    obs = []
    # ---- built-in edges: every query is pure and deterministic
    cases = [("odometry", T, T) for T in TYPES] + [("landmark", TP, TL) for TP, TL in LANDMARK_TYPINGS]
    for kind, TA, TB in cases:
        def edge_queries(k, kind=kind, TA=TA, TB=TB):
            r_ = k.r
            # the information matrix is state (its array must not be written) but its entries play no role in purity:
            # a diagonal symbolic matrix keeps the SE(3) polynomials small
            def info(n):
                return k.np.diag(k.np.array([k.pos("O%d" % i) for i in range(n)]))
            if kind == "odometry":
                vs = [r_.Vertex(3, k.pose(TA, "a")), r_.Vertex(8, k.pose(TA, "b"))]
                e = r_.EdgeOdometry([3, 8], info(POSE_C[TA]), k.pose(TA, "z"), vs)
                twin = r_.EdgeOdometry([3, 8], info(POSE_C[TA]), k.pose(TA, "z"), vs)
            else:
                vs = [r_.Vertex(3, k.pose(TA, "a")), r_.Vertex(8, k.pose(TB, "b"))]
                off = (lambda: r_.PoseSE2.identity()) if TA == "SE2" else (lambda: k.pose(TA, "off"))     # EDGE_SE2_XY can only be written without an offset
                e = r_.EdgeLandmark([3, 8], info(POSE_C[TB]), k.pose(TB, "z"), off(), 2, vs)
                twin = r_.EdgeLandmark([3, 8], info(POSE_C[TB]), k.pose(TB, "z"), off(), 2, vs)
            for v, g_ in zip(vs, (0, POSE_C[TA])):
                v.gradient_index = g_
            fr = Frame(k, vs, [e, twin])
            twice(k, e.calc_error, "calc_error")
            twice(k, e.calc_jacobians, "calc_jacobians")
            if TA != "SE3" or k.mode == "num" or tier == "thorough":
                twice(k, e.calc_chi2, "calc_chi2")
                twice(k, lambda: flat_result(e.calc_chi2_gradient_hessian()), "calc_chi2_gradient_hessian")
            else:
                # SE(3), quick tier: calc_error / calc_jacobians were just shown pure and deterministic; cut them at that
                # contract (opaque arrays of the right shapes) for the two functions of BaseEdge built on top of them
                m = POSE_C[TB] if kind == "landmark" else 6
                oe = k.vec("cut_e", m)
                oJ = [k.matrix("cut_J%d" % i, m, v.pose.COMPACT_DIMENSIONALITY) for i, v in enumerate(vs)]
                with common.patched(type(e), calc_error=lambda self: k.np.array(oe), calc_jacobians=lambda self: [k.np.array(J) for J in oJ]):
                    twice(k, e.calc_chi2, "calc_chi2 (error cut)")
                    twice(k, lambda: flat_result(e.calc_chi2_gradient_hessian()), "calc_chi2_gradient_hessian (error and Jacobians cut)")
            if TA != "SE3":
                # a query through the numerical-differentiation fallback (it evaluates the error at perturbed poses) in between
                J_before = snapshot(k, e.calc_jacobians())
                k.r.BaseEdge.calc_jacobians(e)
                k.same(e.calc_jacobians(), J_before, "calc_jacobians: identical before and after a numerical-Jacobian query of the same edge")
            k.check(e.is_valid(), "is_valid")
            if TA in ("SE2", "SE3"):
                t1, t2 = e.to_g2o(), e.to_g2o()
                k.check(t1 == t2, "to_g2o: a second call returns the identical text")
            fr.unchanged("after all edge queries")
        obs.append(Ob("C15/edge-queries-are-pure/%s/%s-%s" % (kind, TA, TB), edge_queries, funcs=FUNCS, light=True, max_paths=64, eager=(TA == "SE3")))

    # ---- SE(3): the same interleaving at CONCRETE states (symbolic poses would multiply the sign decisions of 12 perturbed poses):
    #      generic, negative scalar part, and the half-turn tie of the error quaternion (w exactly 0) where a 1e-6 perturbation tips
    #      the tie-break -- a query that evaluates the error at perturbed poses must leave no trace in a later query
    def se3_numeric_in_between(k):
        r_ = k.r
        ident = [0.0, 0.0, 0.0, 0.0, 0.0, 0.0, 1.0]
        states = [("generic", [0.5, -1.25, 3.0, 0.5, 0.5, 0.5, 0.5], [2.0, 0.75, -1.0, 0.5, -0.5, 0.5, 0.5], [0.25, 4.0, 1.5, 0.5, 0.5, -0.5, 0.5]),
                  ("negative-w", [0.5, -1.25, 3.0, 0.5, 0.5, 0.5, -0.5], [2.0, 0.75, -1.0, -0.5, -0.5, 0.5, -0.5], ident),
                  ("half-turn-tie", ident, [1.0, 2.0, 3.0, 0.6, 0.0, -0.8, 0.0], ident),
                  ("half-turn-tie-2", ident, [1.0, 2.0, 3.0, 0.0, 0.6, 0.0, 0.8], [0.0, 0.0, 0.0, 0.0, -0.8, 0.0, 0.6])]
        for name, ra, rb, rz in states:
            vs = [r_.Vertex(3, k.pose_from_raw("SE3", ra)), r_.Vertex(8, k.pose_from_raw("SE3", rb))]
            e = r_.EdgeOdometry([3, 8], k.np.eye(6), k.pose_from_raw("SE3", rz), vs)
            fr = Frame(k, vs, [e])
            err_before = snapshot(k, e.calc_error())
            J_before = snapshot(k, e.calc_jacobians())
            r_.BaseEdge.calc_jacobians(e)            # numerical fallback: evaluates the error at perturbed poses
            k.same(e.calc_jacobians(), J_before, "%s: calc_jacobians identical before and after a numerical-Jacobian query" % name)
            k.same(e.calc_error(), err_before, "%s: calc_error identical before and after" % name)
            r_.BaseEdge.calc_jacobians(e)
            e.calc_chi2_gradient_hessian()
            k.same(e.calc_jacobians(), J_before, "%s: calc_jacobians identical after a second numerical query and a contribution query" % name)
            fr.unchanged("%s: after the interleaved queries" % name)
    obs.append(Ob("C15/edge-queries-are-pure/odometry/SE3-numerical-query-in-between", se3_numeric_in_between, funcs=FUNCS, light=True,
                  scope="shape-bounded", bound="4 concrete SE(3) states incl. the half-turn tie of the error quaternion"))

    def eq_twice(k, a, b, tol):
        r1 = a.equals(b, tol)
        r2 = a.equals(b, tol)
        k.implies(r1, r2, "equals: a second call gives the same answer")
        k.implies(r2, r1, "equals: a second call gives the same answer (converse)")

    EQ_FUNCS = ["graphslam.pose.base_pose.BasePose.equals", "graphslam.vertex.Vertex.equals", "graphslam.edge.base_edge.BaseEdge.equals",
                "graphslam.edge.edge_landmark.EdgeLandmark.equals", "graphslam.graph.Graph.equals"]

    def equals_pure_2d(k):
        r_ = k.r
        tol = k.pos("tol")
        v1, v2 = r_.Vertex(0, k.pose("SE2", "a")), r_.Vertex(0, k.pose("SE2", "b"))
        e1 = r_.EdgeOdometry([0, 1], k.spd_matrix("O", 2), k.pose("R2", "z"))
        e2 = r_.EdgeOdometry([0, 1], k.spd_matrix("P", 2), k.pose("R2", "y"))
        l1 = r_.EdgeLandmark([0, 1], k.spd_matrix("Q", 2), k.pose("R2", "w"), k.pose("SE2", "off"), 1)
        g1, g2 = r_.Graph([], [v1]), r_.Graph([], [v2])
        fr = Frame(k, [v1, v2], [e1, e2, l1])
        for a, b in ((v1.pose, v2.pose), (v1, v2), (e1, e2), (l1, l1), (l1, e1), (g1, g2)):
            eq_twice(k, a, b, tol)
        fr.unchanged("after equals on poses, vertices, edges and graphs")
    obs.append(Ob("C15/equals-is-pure/2d-objects", equals_pure_2d, funcs=EQ_FUNCS, light=True, max_paths=2000))

    # SE(3): BOTH operands must be left alone whatever the relation of the two quaternions (same / opposite hemisphere, q vs -q)
    for which in ("poses", "pose-vs-negated", "vertices", "odometry-edges", "graphs"):
        def equals_pure_se3(k, which=which):
            r_ = k.r
            tol = k.pos("tol")
            c, d = k.pose("SE3", "c"), k.pose("SE3", "d")
            cneg = r_.PoseSE3([c[0], c[1], c[2]], [-c[3], -c[4], -c[5], -c[6]])
            if which == "poses":
                fr = Frame(k, extra_arrays=[c, d])
                eq_twice(k, c, d, tol)
                eq_twice(k, d, c, tol)
            elif which == "pose-vs-negated":
                fr = Frame(k, extra_arrays=[c, cneg])
                eq_twice(k, c, cneg, tol)
                eq_twice(k, cneg, c, tol)
            elif which == "vertices":
                w1, w3 = r_.Vertex(3, c), r_.Vertex(3, cneg)
                fr = Frame(k, [w1, w3])
                eq_twice(k, w1, w3, tol)
                eq_twice(k, w3, w1, tol)
            elif which == "odometry-edges":
                o1, o2 = r_.EdgeOdometry([0, 1], k.np.eye(6), c), r_.EdgeOdometry([0, 1], k.np.eye(6), cneg)
                o3 = r_.EdgeOdometry([0, 1], k.np.eye(6), d)
                fr = Frame(k, [], [o1, o2, o3])
                eq_twice(k, o1, o2, tol)
                eq_twice(k, o3, o1, tol)
            else:
                ga = r_.Graph([r_.EdgeOdometry([0, 1], k.np.eye(6), c)], [r_.Vertex(0, k.pose("SE3", "p")), r_.Vertex(1, k.pose("SE3", "q"))])
                gb = r_.Graph([r_.EdgeOdometry([0, 1], k.np.eye(6), cneg)], [r_.Vertex(0, k.pose("SE3", "p")), r_.Vertex(1, k.pose("SE3", "q"))])
                fr = Frame(k, list(ga._vertices) + list(gb._vertices), list(ga._edges) + list(gb._edges))
                eq_twice(k, ga, gb, tol)
                eq_twice(k, gb, ga, tol)
            fr.unchanged("after equals")
        obs.append(Ob("C15/equals-is-pure/SE3-%s" % which, equals_pure_se3, funcs=EQ_FUNCS, light=True, max_paths=2000))

    # ---- results do not alias the state: mutating what a query returned cannot change the state
    def results_are_fresh(k):
        r_ = k.r
        vs = [r_.Vertex(0, k.pose("SE2", "a")), r_.Vertex(1, k.pose("SE2", "b"))]
        e = r_.EdgeOdometry([0, 1], k.spd_matrix("O", 3), k.pose("SE2", "z"), vs)
        vs[0].gradient_index, vs[1].gradient_index = 0, 3
        fr = Frame(k, vs, [e])
        err = e.calc_error()
        Js = e.calc_jacobians()
        chi2, grads, hess = e.calc_chi2_gradient_hessian()
        for arr in [err] + list(Js) + [g for _, g in grads] + [h for _, h in hess] + [vs[0].pose.to_array(), vs[0].pose.position, vs[0].pose.copy(), vs[0].pose.to_compact()]:
            arr[0] = arr[0] * 0 + 12345            # scribble over the returned array
        fr.unchanged("after scribbling over every returned array")
    obs.append(Ob("C15/returned-arrays-do-not-alias-state", results_are_fresh, funcs=FUNCS, light=True))

    # ---- pose operators never mutate their operands; copies are independent
    for T in TYPES:
        def pose_ops(k, T=T):
            a, b = k.pose(T, "a"), k.pose(T, "b")
            PT = POINT_OF[T]
            pt = k.pose(PT, "pt")
            d = k.np.array(k.reals("d", POSE_C[T]))
            if T == "SE3":
                k.assume(d[3] * d[3] + d[4] * d[4] + d[5] * d[5] <= 1)
            fr = Frame(k, extra_arrays=[a, b, pt, d])
            results = [a + b, a - b, a.inverse, a.copy(), a + pt, a + d, operator.iadd(a, b), operator.iadd(a, d), a.to_array(), a.to_compact(), a.position]
            for name in ("jacobian_self_oplus_other_wrt_self", "jacobian_self_oplus_other_wrt_other", "jacobian_self_ominus_other_wrt_self",
                         "jacobian_self_ominus_other_wrt_other", "jacobian_self_oplus_other_wrt_self_compact", "jacobian_self_oplus_other_wrt_other_compact",
                         "jacobian_self_ominus_other_wrt_self_compact", "jacobian_self_ominus_other_wrt_other_compact"):
                results.append(getattr(a, name)(b))
            results += [a.jacobian_boxplus(), a.jacobian_inverse(), a.jacobian_self_oplus_point_wrt_self(pt), a.jacobian_self_oplus_point_wrt_point(pt)]
            if T in ("SE2", "SE3"):
                results.append(a.to_matrix())
            k.holds(a.equals(a.copy(), 1e-6), "equals(copy)")
            fr.unchanged("after every pose operator")
            # results live in storage of their own
            if k.mode == "sym":
                k.check(all(x._st.sid not in fr.sids for x in results), "no result shares storage with an operand")
            else:
                import numpy
                k.check(not any(numpy.shares_memory(x, y) for x in results for y in (a, b, pt, d)), "no result shares memory with an operand")
            c = a.copy()
            c[0] = c[0] + 1
            fr.unchanged("after writing to a copy")
        obs.append(Ob("C15/pose-operators-do-not-mutate/%s" % T, pose_ops, funcs=["graphslam.pose.%s.Pose%s" % (T.lower(), T)], light=True))

    # ---- numerical Jacobians: perturb and restore
    D, Pr, Tri = "distance", "prior", "triple"
    num_cases = [(D, ("SE2", "SE2")), (D, ("SE3", "SE3")), (D, ("R2", "R2")), (Pr, ("SE2",)), (Pr, ("SE3",)), (Pr, ("R3",)), (Tri, ("SE2", "R2", "SE2")), (Tri, ("SE3", "SE3", "R3"))]
    for which, types in num_cases:
        def numjac(k, which=which, types=types):
            r_ = k.r
            DistanceEdge, PriorEdge, TripleEdge = numeric_edge_classes(k)
            vs = [r_.Vertex(10 + i, k.pose(T, "v%d" % i)) for i, T in enumerate(types)]
            ids = [v.id for v in vs]
            if which == D:
                e = DistanceEdge(ids, k.spd_matrix("O", 1), k.real("dist"), vs)
                k.assume(e.calc_error()[0] + e.estimate > 0, "the two positions differ (the distance is differentiable)")
            elif which == Pr:
                e = PriorEdge(ids, k.spd_matrix("O", POSE_C[types[0]]), k.np.array(k.reals("prior", POSE_C[types[0]])), vs)
            else:
                dim = len(vs[0].pose.position)
                e = TripleEdge(ids, k.spd_matrix("O", dim), None, vs)
            for v, g_ in zip(vs, (0, 7, 14)):
                v.gradient_index = g_
            fr = Frame(k, vs, [e])
            J1 = e.calc_jacobians()
            fr.unchanged("after numerical calc_jacobians", allow_pose_rebinding=True)
            J2 = e.calc_jacobians()
            k.same(J1, J2, "numerical Jacobians: a second call returns identical values")
            out = flat_result(e.calc_chi2_gradient_hessian())
            fr.unchanged("after calc_chi2_gradient_hessian with numerical Jacobians", allow_pose_rebinding=True)
            k.check(all(type(v.pose) is k.pose_cls(T) for v, T in zip(vs, types)), "pose classes kept")
        obs.append(Ob("C15/numerical-jacobians-restore-poses/%s/%s" % (which, "-".join(types)), numjac, funcs=FUNCS[2:4], light=True, max_paths=256))

    # ---- graph-level queries and optimize
    def graph_queries(k):
        r_ = k.r
        ghost = common.Ghost()
        sh = {"vertices": [(10, "SE2", False), (3, "R2", True), (-1, "SE2", False)],
              "edges": [("odometry", (10, -1), 0), ("odometry", (-1, 10), 0), ("landmark", (10, 3), 0)], "fix_first_pose": False, "idset": 1}
        g, vs, es = graphs.build(k, sh, ghost, identity_offsets=True)
        fr = Frame(k, vs, es)
        c1 = g.calc_chi2()
        c2 = g.calc_chi2()
        k.same(c1, c2, "Graph.calc_chi2: identical on a second call")
        fd, path = tempfile.mkstemp(prefix="gsv-c15-", suffix=".g2o")
        os.close(fd)
        try:
            k.returns(lambda: g.to_g2o(path), "Graph.to_g2o returns")
        finally:
            os.unlink(path)
        g._calc_chi2_gradient_hessian()
        fr.unchanged("after Graph.calc_chi2 / equals / to_g2o / _calc_chi2_gradient_hessian")
    obs.append(Ob("C15/graph-queries-are-pure", graph_queries, funcs=FUNCS, light=True, scope="shape-bounded", bound="one 3-vertex SE2/R2 graph"))

    # ---- export is a query: an SE(3) graph with landmark offsets (not normalised, w of either sign; one parameter remembered from a
    #      file, one created by the export), odometry with an arbitrary quaternion -- to_g2o writes a file and changes nothing
    def export_pure(k):
        r_ = k.r
        vs = [r_.Vertex(1, k.pose("SE3", "p", unit=False)), r_.Vertex(2, k.pose("R3", "l")), r_.Vertex(3, k.pose("SE3", "q", unit=False)), r_.Vertex(4, k.pose("R3", "m"))]
        off_a, off_b = k.pose("SE3", "offa", unit=False), k.pose("SE3", "offb", unit=False)
        es = [r_.EdgeLandmark([1, 2], k.sym_matrix("O1", 3), k.pose("R3", "z1"), off_a, 5),
              r_.EdgeLandmark([3, 2], k.sym_matrix("O2", 3), k.pose("R3", "z2"), off_a, 5),
              r_.EdgeLandmark([3, 4], k.sym_matrix("O3", 3), k.pose("R3", "z3"), off_b, 0),
              r_.EdgeOdometry([1, 3], k.sym_matrix("O4", 6), k.pose("SE3", "z4", unit=False))]
        g = r_.Graph(es, vs)
        g._g2o_params = {("PARAMS_SE3OFFSET", 5): r_.g2o_parameters.G2OParameterSE3Offset(("PARAMS_SE3OFFSET", 5), off_a)}
        fr = Frame(k, vs, es, extra_arrays=[off_a, off_b])
        params_before = dict(g._g2o_params)
        for rep in (1, 2):
            fd, path = tempfile.mkstemp(prefix="gsv-c15-", suffix=".g2o")
            os.close(fd)
            try:
                k.returns(lambda: g.to_g2o(path), "Graph.to_g2o returns (export %d)" % rep)
            finally:
                os.unlink(path)
        fr.unchanged("after two exports")
        k.check(list(g._g2o_params.items()) == list(params_before.items()), "the remembered parameters are the same objects under the same keys")
    obs.append(Ob("C15/export-is-pure/SE3-landmarks-with-offsets", export_pure, funcs=FUNCS + ["graphslam.graph.Graph.to_g2o"], light=True,
                  scope="shape-bounded", bound="one 4-vertex SE3/R3 graph"))

    for name, sh in (("SE2-R2-real-edges", {"vertices": [(10, "SE2", False), (3, "R2", False), (-1, "SE2", True)],
                                            "edges": [("odometry", (10, -1), 0), ("landmark", (10, 3), 0), ("cut", (3, -1), 2)], "fix_first_pose": True, "idset": 1}),
                     ("SE3-R3-cut-edges", {"vertices": [(1, "SE3", False), (2, "R3", False)], "edges": [("cut", (1, 2), 3), ("cut", (2, 1), 2), ("cut", (1,), 1)], "fix_first_pose": True, "idset": 0})):
        for iters in ((1, 2) if tier == "quick" else (1, 2, 3)):
            if name.startswith("SE3") and iters > 1 and tier == "quick":
                continue
            def opt(k, sh=sh, iters=iters):
                ghost = common.Ghost()
                g, vs, es = graphs.build(k, sh, ghost, opaque_chi2=True)
                if k.mode == "sym":
                    for c in range(iters):
                        graphs.assume_small_rotations(k, sh, call=c)
                fr = Frame(k, [], es)           # edges: everything; vertices: checked separately (poses may change)
                flags = [v.fixed for v in vs]
                ids = [v.id for v in vs]
                classes = [type(v.pose) for v in vs]
                order_v, order_e = list(g._vertices), list(g._edges)
                pose_before = [k.np.array(v.pose) for v in vs]
                pose_objs = [v.pose for v in vs]
                with common.counting_spsolve(k, ghost), common.patched(k.r.Graph, calc_chi2=lambda self: _cut(self, k)):
                    g.optimize(tol=k.nonneg("tol"), max_iter=iters, fix_first_pose=sh["fix_first_pose"], verbose=False)
                fr.unchanged("after optimize (%d iteration(s)): edges" % iters)
                k.check([v.id for v in vs] == ids and [type(v.pose) for v in vs] == classes, "vertex ids and pose classes unchanged")
                k.check(all(a is b for a, b in zip(g._vertices, order_v)) and len(g._vertices) == len(order_v), "vertex list unchanged")
                k.check(all(a is b for a, b in zip(g._edges, order_e)) and len(g._edges) == len(order_e), "edge list unchanged")
                want_flags = list(flags)
                if sh["fix_first_pose"]:
                    want_flags[0] = True
                k.check([v.fixed for v in vs] == want_flags, "fixed flags: only vertices[0] when asked", [v.fixed for v in vs])
                for old_obj, old_val in zip(pose_objs, pose_before):
                    k.same(old_obj, old_val, "the pose ARRAYS that existed before the call were not written (poses are re-bound, not mutated)")
            obs.append(Ob("C15/optimize-frame/%s/iters=%d" % (name, iters), opt, funcs=FUNCS, solver="functional", light=not name.startswith("SE3"),
                          scope="shape-bounded", bound="graph %s, %d iterations" % (name, iters), max_paths=512))

    # ---- optimize() with information matrices that are NOT symmetric (nothing says they must be; g2o files cannot hold them, code can):
    #      the edges' arrays are untouched, whatever the options' defaults
    def opt_asymmetric(k):
        r_ = k.r
        ghost = common.Ghost()
        vs = [r_.Vertex(0, k.pose("R2", "a")), r_.Vertex(1, k.pose("R2", "b")), r_.Vertex(2, k.pose("SE2", "c"))]
        es = [r_.EdgeOdometry([0, 1], k.matrix("O1", 2, 2), k.pose("R2", "z1")), r_.EdgeLandmark([2, 1], k.matrix("O2", 2, 2), k.pose("R2", "z2"), k.pose("SE2", "off"), 0),
              r_.EdgeLandmark([0, 1], k.matrix("O3", 2, 2), k.pose("R2", "z3"), k.pose("R2", "off2"), 0)]
        g = r_.Graph(es, vs)
        fr = Frame(k, [], es)
        with common.counting_spsolve(k, ghost), common.patched(k.r.Graph, calc_chi2=lambda self: _cut(self, k)):
            g.optimize(tol=k.nonneg("tol"), max_iter=1, verbose=False)
        fr.unchanged("after optimize() on a graph with non-symmetric information matrices: edges")
    obs.append(Ob("C15/optimize-frame/non-symmetric-information", opt_asymmetric, funcs=FUNCS, solver="functional", light=True,
                  scope="shape-bounded", bound="one 3-vertex R2/SE2 graph, 1 iteration", max_paths=512))

    # ---- interleavings of queries
    n_seq = 3 if tier == "quick" else 10
    length = 12 if tier == "quick" else 50
    for si in range(n_seq):
        def interleave(k, si=si):
            rnd = random.Random("%d|%d" % (seed, si))
            r_ = k.r
            DistanceEdge, PriorEdge, TripleEdge = numeric_edge_classes(k)
            vs = [r_.Vertex(0, k.pose("SE2", "a")), r_.Vertex(1, k.pose("R2", "l")), r_.Vertex(2, k.pose("SE2", "b"))]
            es = [r_.EdgeOdometry([0, 2], k.spd_matrix("O0", 3), k.pose("SE2", "z0")),
                  r_.EdgeLandmark([2, 1], k.spd_matrix("O1", 2), k.pose("R2", "z1"), k.pose("SE2", "off"), 0),
                  PriorEdge([1], k.spd_matrix("O2", 2), k.np.array(k.reals("prior", 2)))]
            g = r_.Graph(es, vs)
            fr = Frame(k, vs, es)
            queries = {
                "chi2": lambda: g.calc_chi2(),
                "err0": lambda: es[0].calc_error(), "err1": lambda: es[1].calc_error(), "err2": lambda: es[2].calc_error(),
                "jac0": lambda: es[0].calc_jacobians(), "jac1": lambda: es[1].calc_jacobians(), "numjac2": lambda: es[2].calc_jacobians(),
                "cgh0": lambda: flat_result(es[0].calc_chi2_gradient_hessian()), "cgh2": lambda: flat_result(es[2].calc_chi2_gradient_hessian()),
                "gh": lambda: g._calc_chi2_gradient_hessian(), "compose": lambda: (vs[0].pose + vs[2].pose).to_array(),
                "inverse": lambda: vs[2].pose.inverse.to_array(), "g2o-vertex": lambda: vs[0].to_g2o(), "g2o-edge": lambda: es[0].to_g2o(),
            }
            first = {}
            seq = [rnd.choice(sorted(queries)) for _ in range(length)]
            for name in seq:
                out = queries[name]()
                if out is None:
                    continue
                if name in first:
                    if isinstance(out, str):
                        k.check(out == first[name], "%s: identical text on a later call" % name)
                    else:
                        k.same(out, first[name], "%s: identical values on a later call" % name)
                else:
                    first[name] = out
            k.note("sequence", seq)
            fr.unchanged("after %d interleaved queries" % length, allow_pose_rebinding=True)
        obs.append(Ob("C15/interleaved-queries/seq%d" % si, interleave, funcs=FUNCS, light=True, scope="shape-bounded",
                      bound="one seeded sequence of %d queries on a 3-vertex graph" % length, max_paths=64))

    # ---- the float-only corner: restoring an SE(2) pose whose stored angle is exactly +pi (numeric interpretation only)
    def wrap_corner(k):
        import numpy
        r_ = k.r
        DistanceEdge, PriorEdge, TripleEdge = numeric_edge_classes(k)
        corners = [numpy.nextafter(-numpy.pi, -numpy.inf), numpy.pi, -numpy.pi, numpy.nextafter(numpy.pi, 0.0), 3 * numpy.pi, numpy.nextafter(-3 * numpy.pi, -numpy.inf)]
        for th in corners:
            vs = [r_.Vertex(0, r_.PoseSE2([k.real("x"), k.real("y")], float(th))), r_.Vertex(1, r_.PoseSE2([k.real("u"), k.real("v")], k.angle("phi")))]
            e = DistanceEdge([0, 1], numpy.eye(1), 1.0, vs)
            before = numpy.array(vs[0].pose)
            e.calc_jacobians()
            k.same(numpy.array(vs[0].pose), before, "SE2 vertex with stored angle %r is bit-identical after numerical calc_jacobians" % float(before[2]))
            e.calc_chi2_gradient_hessian()
            k.same(numpy.array(vs[0].pose), before, "... and after calc_chi2_gradient_hessian (angle %r)" % float(before[2]))
    obs.append(Ob("C15/float-corner/numerical-jacobians-at-the-wrap-boundary", wrap_corner, numeric_only=True, num_points=4,
                  funcs=FUNCS[2:4], scope="bounded-floating-point", bound="6 corner angles x 4 seeded points, IEEE doubles on the real numpy"))

    # canaries
    def canary(k):
        r_ = k.r
        vs = [r_.Vertex(0, k.pose("R2", "a")), r_.Vertex(1, k.pose("R2", "b"))]
        e = r_.EdgeOdometry([0, 1], k.spd_matrix("O", 2), k.pose("R2", "z"), vs)
        fr = Frame(k, vs, [e])
        e.information[0, 0] = e.information[0, 0] + 1        # a deliberate write to the state
        fr.unchanged("after a deliberate write")
    obs.append(Ob("C15/canary/deliberate-write-goes-unnoticed", canary, tier="canary", light=True))

    def canary2(k):
        ghost = common.Ghost()
        sh = {"vertices": [(0, "R2", False), (1, "R2", False)], "edges": [("cut", (0, 1), 2)], "fix_first_pose": True, "idset": 0}
        g, vs, es = graphs.build(k, sh, ghost, opaque_chi2=True)
        before = k.np.array(vs[1].pose)
        with common.counting_spsolve(k, ghost), common.patched(k.r.Graph, calc_chi2=lambda self: _cut(self, k)):
            g.optimize(tol=k.nonneg("tol"), max_iter=1, verbose=False)
        k.same(vs[1].pose, before, "optimize leaves a free vertex where it was")
    obs.append(Ob("C15/canary/optimize-changes-nothing", canary2, tier="canary", solver="functional", light=True))
    return obs


def _cut(graph, k):
    graph._chi2 = k.nonneg("chi2_final")
    return graph._chi2


META = {
    "bounds": "every query x the property's finite list of edge typings / pose types (unbounded in the numbers); numerical Jacobians for 8 custom-edge typings of arity 1-3; optimize on two graphs x 1-2 (3) iterations; 3 (10) seeded query sequences of length 12 (50); the IEEE corner is a separate bounded numeric check",
    "assumptions": ["bitwise statements are proved as 'identical terms over the reals'; IEEE arithmetic enters only through the bounded float-corner obligation",
                    "induction 'a pure call leaves the state identical, hence any interleaving is equivalent to none' is not mechanised"],
}
