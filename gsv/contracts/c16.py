"""C16 -- custom edges with numerical Jacobians (first sentence of the property; the convergence claim is not applicable).

An edge type that defines only calc_error receives its Jacobians from BaseEdge.calc_jacobians / _calc_jacobian.

Top level (refactor-tolerant: a central difference passes too), for a family of smooth custom error functions (distance,
squared range, relative pose, prior, 3-vertex midpoint) over pose-type tuples of arity 1..3:
  consistency   with the step constant replaced by an INFINITESIMAL eps (first-order jet, eps^2 = 0) the real
                calc_jacobians() returns exactly the derivative of the error through the real box-plus:
                (E(p [+] eps u) - E(p)) / eps == dE/du   -- i.e. lim_{h->0} J_num(h) is the true derivative, so the only
                error of the numerical Jacobian is the O(h) truncation term of Taylor's theorem (mathematics, not code)
  step          the step actually used satisfies 0 < h <= 1.5e-6 ("a 1e-6 forward difference", slack for an equivalent literal)
  shape         one Jacobian per vertex, of shape (len(error), COMPACT_DIMENSIONALITY of that vertex)
Internal: with the step a real symbol h > 0, column d is exactly (E(p [+] h u_d) - E(p)) / h.
Numerically (real numpy, the real step 1e-6): numerical Jacobian vs 8th-order reference derivative, tolerance 1e-4 relative.
"""
import itertools

from gsv.ob import Ob, TYPES
from gsv.kernel import POSE_C
from gsv.contracts import common

BASE = "graphslam.edge.base_edge.BaseEdge"
FUNCS = [BASE + ".calc_jacobians", BASE + "._calc_jacobian"]


def edge_family(k):
    r = k.r
    key = "_c16_family"
    if hasattr(r, key):
        return getattr(r, key)
    np = k.np

    class Valid(r.BaseEdge):
        def is_valid(self):
            return self._is_valid()

    class Distance(Valid):
        def calc_error(self):
            return np.array([np.linalg.norm(self.vertices[0].pose.position - self.vertices[1].pose.position) - self.estimate])

    class SquaredRange(Valid):
        def calc_error(self):
            d = self.vertices[0].pose.position - self.vertices[1].pose.position
            return np.array([np.dot(d, d) - self.estimate])

    class RelativePose(Valid):
        def calc_error(self):
            return (self.vertices[1].pose - self.vertices[0].pose).to_compact() - self.estimate

    class Prior(Valid):
        def calc_error(self):
            return self.vertices[0].pose.to_compact() - self.estimate

    class Midpoint(Valid):
        def calc_error(self):
            a, b, c = (v.pose.position for v in self.vertices)
            return b - (a + c) / 2.0 - self.estimate
    fam = {"distance": Distance, "squared-range": SquaredRange, "relative-pose": RelativePose, "prior": Prior, "midpoint": Midpoint}
    setattr(r, key, fam)
    return fam


def cases(tier):
    out = []
    for T in TYPES:
        out.append(("prior", (T,)))
        out.append(("relative-pose", (T, T)))
        out.append(("distance", (T, T)))
        out.append(("squared-range", (T, T)))
    out += [("distance", ("SE2", "R2")), ("squared-range", ("SE3", "R3")), ("squared-range", ("R2", "SE2"))]
    out += [("midpoint", ("SE2", "R2", "SE2")), ("midpoint", ("R3", "SE3", "R3")), ("midpoint", ("R2", "R2", "R2"))]
    if tier == "thorough":
        out += [("midpoint", ("SE3", "SE3", "SE3")), ("midpoint", ("SE2", "SE2", "R2")), ("distance", ("SE3", "R3")), ("distance", ("R3", "SE3"))]
    return out


def build(k, which, types):
    r = k.r
    fam = edge_family(k)
    vs = [r.Vertex(5 + i, k.pose(T, "v%d" % i)) for i, T in enumerate(types)]
    if which in ("distance", "squared-range"):
        m, est = 1, k.real("est")
    elif which == "relative-pose":
        m = POSE_C[types[0]]
        est = k.np.array(k.reals("est", m))
    elif which == "prior":
        m = POSE_C[types[0]]
        est = k.np.array(k.reals("est", m))
    else:
        m = len(vs[0].pose.position)
        est = k.np.array(k.reals("est", m))
    e = fam[which]([v.id for v in vs], k.np.eye(m), est, vs)
    return e, vs, m


def wrap_rows(which, types):
    if which in ("relative-pose", "prior") and types[0] == "SE2":
        return (2,)
    return ()


def obligations(r, tier, seed):
    obs = []
    for which, types in cases(tier):
        def consistent(k, which=which, types=types):
            r_ = k.r
            e, vs, m = build(k, which, types)
            if which == "distance":
                k.assume(e.calc_error()[0] + e.estimate > 0, "the two positions differ (the distance is differentiable there)")
            step = type(e)._NUMERICAL_DIFFERENTIATION_EPSILON
            k.check(isinstance(step, float) and 0 < step <= 1.5e-6, "the step is a 1e-6 forward-difference step: 0 < h <= 1.5e-6", step)
            if k.mode == "sym":
                from gsv.engine import sym as S
                from gsv.engine.poly import Poly
                st = S.state()
                ev = st.pc.new_var("eps_step", "inf")
                eps = S.Sym(Poly.var(ev))
                with common.patched(type(e), _NUMERICAL_DIFFERENTIATION_EPSILON=eps):
                    J = e.calc_jacobians()
                st.pc.inf.discard(ev)
                # entries are  (eps * X) / eps ; equality below is decided by cross-multiplication in jet arithmetic, so re-enable eps
                st.pc.inf.add(ev)
                tol = {}
            else:
                J = e.calc_jacobians()
                tol = {"rtol": 2e-4, "atol": 2e-4}
            k.check(len(J) == len(vs), "one Jacobian per vertex", len(J))
            for i, (v, T) in enumerate(zip(vs, types)):
                c = POSE_C[T]
                k.check(tuple(J[i].shape) == (m, c), "Jacobian %d has shape (len(error), compact dimension)" % i, tuple(J[i].shape))

                def f(d, i=i):
                    old = vs[i].pose
                    vs[i].pose = old + d
                    try:
                        return e.calc_error()
                    finally:
                        vs[i].pose = old
                k.eq(J[i], k.deriv(f, c, wrap_rows=wrap_rows(which, types)), "vertex %d: numerical Jacobian with an infinitesimal step == exact derivative through box-plus" % i, **tol)
            if k.mode == "sym":
                S.state().pc.inf.discard(ev)
        obs.append(Ob("C16/difference-quotient-is-consistent/%s/%s" % (which, "-".join(types)), consistent, funcs=FUNCS, light=True,
                      scope="shape-bounded", bound="error family member %s on %s" % (which, "-".join(types))))

    # ---- "to the accuracy of a 1e-6 forward difference": the points at which the error is ACTUALLY evaluated (observed through a
    #      ghost log in the custom error function, real step constant, nothing patched) are the base point and, per compact
    #      coordinate, one point whose difference from the base point (the real ominus) is a single step 0 < h <= 1.5e-6 -- whatever the
    #      magnitude of the coordinates
    for T in TYPES:
        def actual_step(k, T=T):
            r_ = k.r
            np = k.np
            log = []

            class Logged(r_.BaseEdge):
                def is_valid(self):
                    return self._is_valid()

                def calc_error(self):
                    log.append([v.pose.copy() for v in self.vertices])
                    return self.vertices[0].pose.to_compact()[:2] - self.vertices[1].pose.to_compact()[:2]
            vs = [r_.Vertex(1, k.pose(T, "a")), r_.Vertex(2, k.pose(T, "b"))]
            e = Logged([1, 2], np.eye(2), None, vs)
            base = [v.pose.copy() for v in vs]
            J = k.returns(lambda: e.calc_jacobians(), "numerical Jacobians are computed")
            if J is None:
                return
            c = POSE_C[T]
            B = 2.25e-12
            TWO_PI = 2 * np.pi

            def is_zero(x):
                if k.mode == "num":
                    return abs(float(x)) < 1e-18        # rounding residue of p (-) p; a real step has |step|^2 ~ 1e-12
                from gsv.engine.sym import Sym
                return (x.is_const() and x.const_value() == 0) if isinstance(x, Sym) else x == 0
            moved = []
            for snap in log:
                for i in (0, 1):
                    if T == "SE2":
                        # translation difference; the stored angles differ by the step up to one full turn (the stored angle is wrapped)
                        dxy2 = (snap[i][0] - base[i][0]) * (snap[i][0] - base[i][0]) + (snap[i][1] - base[i][1]) * (snap[i][1] - base[i][1])
                        dth = snap[i][2] - base[i][2]
                        if is_zero(dxy2) and is_zero(dth):
                            continue
                        small = (dxy2 <= B) & ((dth * dth <= B) | ((dth + TWO_PI) * (dth + TWO_PI) <= B) | ((dth - TWO_PI) * (dth - TWO_PI) <= B))
                        moved.append((i, small & ((dxy2 > 0) | (dth * dth > 0))))
                        continue
                    d = list((snap[i] - base[i]).to_compact()) if T == "SE3" else list(snap[i].to_array() - base[i].to_array())
                    n2 = 0
                    for x in d:
                        n2 = n2 + x * x
                    if not is_zero(n2):
                        moved.append((i, (n2 > 0) & (n2 <= B)))
            k.check(len(moved) == 2 * c, "the error is evaluated at one perturbed point per compact coordinate of each vertex", len(moved))
            for i, cond in moved:
                k.holds(cond, "vertex %d: the perturbed evaluation point is within 1.5e-6 of the base point (|step|^2 <= 2.25e-12)" % i)
        obs.append(Ob("C16/step-actually-used/%s" % T, actual_step, funcs=FUNCS, light=True))

    # ---- "over any number of vertices": the gradient / Hessian contributions of an n-ary edge with numerical Jacobians are
    #      e^T Omega J_i and J_i^T Omega J_j for every pair i <= j, keyed by the vertices' gradient indices (the accumulation the
    #      optimizer relies on; C03 proves it for opaque Jacobians, here it is stated for the numerically differentiated ones)
    for which, types in [("midpoint", ("SE2", "R2", "SE2")), ("midpoint", ("R3", "SE3", "R3")), ("relative-pose", ("SE2", "SE2")), ("prior", ("SE3",))]:
        def contributions(k, which=which, types=types):
            np = k.np
            e, vs, m = build(k, which, types)
            gi = [5, 11, 23][:len(vs)]
            for v, g_ in zip(vs, gi):
                v.gradient_index = g_
            e.information = k.spd_matrix("Om", m)
            chi2, grads, hess = e.calc_chi2_gradient_hessian()
            err = e.calc_error()
            Js = e.calc_jacobians()
            Om = e.information
            k.eq(chi2, np.dot(np.dot(err, Om), err), "chi2 == e^T Omega e", rtol=1e-7)
            k.check([g[0] for g in grads] == gi, "gradient blocks keyed by gradient_index, in vertex order", [g[0] for g in grads])
            for i in range(len(vs)):
                k.eq(grads[i][1], np.dot(np.dot(err, Om), Js[i]), "gradient block of vertex %d == e^T Omega J_%d" % (i, i), rtol=1e-7)
            want = [(gi[i], gi[j]) for i in range(len(vs)) for j in range(i, len(vs))]
            k.check([h[0] for h in hess] == want, "Hessian blocks for every pair i <= j", [h[0] for h in hess])
            it = iter(hess)
            for i in range(len(vs)):
                for j in range(i, len(vs)):
                    k.eq(next(it)[1], np.dot(np.dot(np.transpose(Js[i]), Om), Js[j]), "Hessian block (%d,%d) == J_%d^T Omega J_%d" % (i, j, i, j), rtol=1e-7)
        obs.append(Ob("C16/n-ary-contributions/%s/%s" % (which, "-".join(types)), contributions, funcs=[BASE + ".calc_chi2_gradient_hessian"] + FUNCS, light=True,
                      scope="shape-bounded", bound="error family member %s on %s" % (which, "-".join(types))))

    # ---- internal: the exact forward-difference formula with a symbolic real step
    for which, types in [("prior", ("SE2",)), ("squared-range", ("R2", "SE2")), ("relative-pose", ("R3", "R3")), ("midpoint", ("R2", "R2", "R2")), ("prior", ("SE3",))]:
        def formula(k, which=which, types=types):
            e, vs, m = build(k, which, types)
            h = k.pos("h")
            if "SE3" in types:
                k.assume(h <= 1, "step small enough for the box-plus clamp not to act")
            with common.patched(type(e), _NUMERICAL_DIFFERENTIATION_EPSILON=h):
                J = e.calc_jacobians()
            err = e.calc_error()
            for i, T in enumerate(types):
                c = POSE_C[T]
                for d in range(c):
                    delta = k.np.zeros(c)
                    delta[d] = h
                    old = vs[i].pose
                    vs[i].pose = old + delta
                    moved = e.calc_error()
                    vs[i].pose = old
                    k.eq(J[i][:, d] * h, moved - err, "vertex %d, column %d: J[:, d] * h == E(p [+] h u_d) - E(p)" % (i, d))
        obs.append(Ob("C16/internal/forward-difference-formula/%s/%s" % (which, "-".join(types)), formula, tier="internal", funcs=FUNCS, light=True, numeric=False))

    def canary(k):
        e, vs, m = build(k, "squared-range", ("R2", "R2"))
        J = e.calc_jacobians()
        k.eq(J[0], J[1], "both vertices have the same Jacobian", rtol=1e-3, atol=1e-3)
    obs.append(Ob("C16/canary/same-jacobian-for-both-vertices", canary, tier="canary", light=True))

    def canary2(k):
        e, vs, m = build(k, "prior", ("R3",))
        k.check(type(e)._NUMERICAL_DIFFERENTIATION_EPSILON > 1e-3, "a coarse step would be acceptable")
    obs.append(Ob("C16/canary/coarse-step-accepted", canary2, tier="canary", light=True))
    return obs


META = {
    "bounds": "5 smooth error families x the listed pose-type tuples of arity 1..3 (23 quick / 27 thorough); numbers universal; the step is the class constant",
    "assumptions": ["Taylor's theorem: a forward difference with step h whose limit is the derivative differs from it by O(h) (second derivative bounded near the point)",
                    "second sentence of C16 (same optimum as with exact Jacobians) is a convergence claim: not applicable to this technique"],
}
