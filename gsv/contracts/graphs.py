"""The graph shape family G3 (DESIGN.md Appendix B) and the builder that turns a shape into real Graph objects.

A shape is the discrete part of a graph: vertex list (id, pose type, fixed flag) in list order, edge list (kind, vertex
ids, error dimension), fix_first_pose.  Numbers are never part of a shape: every pose component, measurement,
information entry, error and Jacobian entry is a universally quantified real.

Edge kinds
  cut        a custom edge (BaseEdge subclass, arity 1..3) whose calc_error / calc_jacobians are cut to opaque symbolic
             arrays of the right shapes, one set per graph state (ghost counter s).  Everything from
             BaseEdge.calc_chi2_gradient_hessian upward runs for real.  This is the statement's own reading -- b and H
             are defined in terms of the edges' e and J (that J is the right Jacobian is C01) -- and the only sensible
             model of a custom edge.
  odometry   the real EdgeOdometry (same pose type at both ends), inlined
  landmark   the real EdgeLandmark with a symbolic (rotated) offset, inlined
"""
import itertools
import random

from gsv.kernel import POSE_C, POINT_OF
from gsv.contracts import common

ID_SETS = [(0, 1, 2), (10, 3, -1), (2 ** 63 + 5, -7, 0)]


def cut_error_edge_class(k, ghost, point_rot=None, opaque_chi2=False):
    """point_rot: a rotation matrix R; the Jacobians reported for POINT vertices (PoseR2/PoseR3) are J . R^T -- what the
    edges of a graph moved by a rigid transform with rotation R report (C07 edge-level facts)."""
    r = k.r
    np = k.np
    cache = {}

    class CutErrEdge(r.BaseEdge):
        _n = [0]

        def __init__(self, vertex_ids, information, m, vertices=None):
            super().__init__(vertex_ids, information, None, vertices)
            CutErrEdge._n[0] += 1
            self.tag = "E%d" % CutErrEdge._n[0]
            self.m = m

        def is_valid(self):
            return self._is_valid()

        def calc_chi2(self):
            if not opaque_chi2:
                return r.BaseEdge.calc_chi2(self)
            key = (self.tag, ghost.s, "chi2")
            if key not in cache:
                cache[key] = k.nonneg("chi2_%s_s%d" % (self.tag, ghost.s))      # >= 0: positive semi-definite information
            return cache[key]

        def calc_error(self):
            key = (self.tag, ghost.s, "e")
            if key not in cache:
                cache[key] = k.vec("e_%s_s%d_" % (self.tag, ghost.s), self.m)
            return np.array(cache[key])

        def calc_jacobians(self):
            key = (self.tag, ghost.s, "J")
            if key not in cache:
                cache[key] = [k.matrix("J_%s_s%d_%d" % (self.tag, ghost.s, i), self.m, v.pose.COMPACT_DIMENSIONALITY)
                              for i, v in enumerate(self.vertices)]
            out = []
            for J, v in zip(cache[key], self.vertices):
                J = np.array(J)
                if point_rot is not None and isinstance(v.pose, (r.PoseR2, r.PoseR3)):
                    J = np.dot(J, np.transpose(point_rot))
                out.append(J)
            return out
    return CutErrEdge


def type_name(k, pose):
    r = k.r
    for T, cls in (("SE2", r.PoseSE2), ("SE3", r.PoseSE3), ("R2", r.PoseR2), ("R3", r.PoseR3)):
        if type(pose) is cls:
            return T
    raise KeyError(type(pose))


def build(k, shape, ghost, point_rot=None, opaque_chi2=False, identity_offsets=False):
    """Returns (graph, vertices, edges)."""
    r = k.r
    Cut = cut_error_edge_class(k, ghost, point_rot, opaque_chi2)
    vs = []
    types = {}
    for i, (vid, T, fixed) in enumerate(shape["vertices"]):
        vs.append(r.Vertex(vid, k.pose(T, "v%d" % i), fixed=fixed))
        types[vid] = T
    es = []
    for j, (kind, ids, m) in enumerate(shape["edges"]):
        if kind == "cut":
            es.append(Cut(list(ids), k.spd_matrix("Om%d" % j, m), m))
        elif kind == "odometry":
            T = types[ids[0]]
            es.append(r.EdgeOdometry(list(ids), k.spd_matrix("Om%d" % j, POSE_C[T]), k.pose(T, "z%d" % j)))
        elif kind == "landmark":
            TP, TL = types[ids[0]], types[ids[1]]
            off = k.pose_cls(TP).identity() if identity_offsets else k.pose(TP, "off%d" % j)
            es.append(r.EdgeLandmark(list(ids), k.spd_matrix("Om%d" % j, POSE_C[TL]), k.pose(TL, "z%d" % j), off, 0))
        else:
            raise KeyError(kind)
    g = r.Graph(es, vs)
    return g, vs, es


def name_of(shape):
    vs = ",".join("%s%s" % (T, "*" if f else "") for _, T, f in shape["vertices"])
    pos = {vid: i for i, (vid, _, _) in enumerate(shape["vertices"])}
    es = ",".join("%s%s(%s)" % (kind[0], m if kind == "cut" else "", "".join("abcdefgh"[pos[i]] for i in ids)) for kind, ids, m in shape["edges"])
    return "[%s]{%s}ids%d%s" % (vs, es or "-", shape["idset"], "" if shape["fix_first_pose"] else "/nofix")


def _patterns2():
    # positions a=0, b=1
    return {
        "single": [(0, 1)], "reversed": [(1, 0)],
        "par-ab-ab": [(0, 1), (0, 1)], "par-ab-ba": [(0, 1), (1, 0)], "par-ba-ab": [(1, 0), (0, 1)], "par-ba-ba": [(1, 0), (1, 0)],
        "unary": [(0, 1), (1,)], "none": [],
    }


def _patterns3():
    return {
        "ternary": [(0, 1, 2)], "ternary-perm": [(2, 0, 1), (1, 2)], "chain": [(0, 1), (1, 2)],
        "star-rev": [(2, 0), (1, 2), (0, 1)], "pair-plus-isolated": [(0, 1)], "par-ba-ba+c": [(1, 0), (1, 0), (2, 1)],
    }


def ternary_overlap_family(tier):
    """A 3-vertex custom edge in each of its 6 vertex orders, together with a binary edge (either direction) on the pair of FREE
    vertices, for each choice of the one fixed vertex: every way a block of the ternary edge can meet the block of another edge."""
    shapes = []
    combos = [("SE2", "R2", "SE2"), ("R3", "SE3", "R2")] if tier == "thorough" else [("SE2", "R2", "R3")]
    ids = ID_SETS[1]
    n = 0
    for types in combos:
        for fixed_pos in range(3):
            free = [p for p in range(3) if p != fixed_pos]
            for perm in itertools.permutations(range(3)):
                for pair in (tuple(free), tuple(reversed(free))):
                    n += 1
                    vs = [(ids[i], types[i], i == fixed_pos) for i in range(3)]
                    es = [("cut", tuple(ids[p] for p in perm), 1 + n % 3), ("cut", tuple(ids[p] for p in pair), 1 + (n + 1) % 3)]
                    if n % 2:
                        es.reverse()
                    sh = {"vertices": vs, "edges": es, "fix_first_pose": False, "idset": 1, "pattern": "ternary-overlap"}
                    sh["name"] = name_of(sh)
                    shapes.append(sh)
    return shapes


def family(tier, seed, well_posed_only=False):
    """The stated finite family of shapes (deterministic), plus seeded random shapes in the thorough tier."""
    shapes = []
    combos2 = [("R2", "R2"), ("SE2", "R2"), ("R2", "SE2"), ("SE2", "SE2"), ("SE3", "R3"), ("R3", "SE3")]
    combos3 = [("SE2", "R2", "SE2"), ("R2", "SE2", "R2"), ("SE3", "R3", "SE2"), ("R3", "SE3", "R2")]
    if tier == "thorough":
        combos2 += [("R3", "R3"), ("SE3", "SE3"), ("SE2", "SE3")]
        combos3 += [("SE3", "SE3", "R3"), ("R2", "R2", "R2")]
    n = 0
    for combos, patterns, nv in ((combos2, _patterns2(), 2), (combos3, _patterns3(), 3)):
        for types in combos:
            for pname, pat in patterns.items():
                for fixed in itertools.product([False, True], repeat=nv):
                    for ffp in (True, False):
                        # thin the 3-vertex cross product in the quick tier (every pattern still meets every fixed set)
                        n += 1
                        if tier == "quick" and nv == 3 and (n % 2 == 1) and not (not any(fixed) or all(fixed)):
                            continue
                        idset = n % 3
                        ids = ID_SETS[idset]
                        vs = [(ids[i], types[i], fixed[i]) for i in range(nv)]
                        es = []
                        for j, e in enumerate(pat):
                            es.append(("cut", tuple(ids[p] for p in e), 1 + (n + j) % 3))
                        shapes.append({"vertices": vs, "edges": es, "fix_first_pose": ffp, "idset": idset, "pattern": pname})
    # real edges inlined (R2 / SE2 quick; R3 / SE3 thorough)
    real = []
    for ffp in (True, False):
        for fixed in ((False, False, True), (True, False, False), (False, False, False)):
            ids = ID_SETS[1]
            real.append({"vertices": [(ids[0], "SE2", fixed[0]), (ids[1], "R2", fixed[1]), (ids[2], "SE2", fixed[2])],
                         "edges": [("odometry", (ids[0], ids[2]), 0), ("odometry", (ids[2], ids[0]), 0), ("landmark", (ids[0], ids[1]), 0), ("landmark", (ids[2], ids[1]), 0)],
                         "fix_first_pose": ffp, "idset": 1, "pattern": "real-SE2-R2"})
            real.append({"vertices": [(5, "R2", fixed[0]), (4, "R2", fixed[1]), (9, "R2", fixed[2])],
                         "edges": [("odometry", (4, 5), 0), ("odometry", (4, 5), 0), ("landmark", (9, 4), 0), ("cut", (9,), 2)],
                         "fix_first_pose": ffp, "idset": 0, "pattern": "real-R2"})
    if tier == "thorough":
        for ffp in (True, False):
            # (an inlined SE(3) ODOMETRY edge with a full symbolic 6x6 information costs tens of minutes per control path; its error and
            #  Jacobians are C01/C02's subject and the accumulation above them is proved with those cut, so only the SE(3) landmark
            #  edge is inlined here)
            real.append({"vertices": [(1, "SE3", False), (2, "R3", False), (3, "SE3", True)],
                         "edges": [("cut", (3, 1), 3), ("landmark", (1, 2), 0)], "fix_first_pose": ffp, "idset": 0, "pattern": "real-SE3-R3"})
            real.append({"vertices": [(1, "R3", False), (2, "R3", True)], "edges": [("odometry", (2, 1), 0), ("landmark", (1, 2), 0)],
                         "fix_first_pose": ffp, "idset": 0, "pattern": "real-R3"})
        rnd = random.Random(seed)
        for _ in range(40):
            nv = rnd.randint(2, 6)
            types = [rnd.choice(["R2", "SE2", "R3", "SE3"]) for _ in range(nv)]
            ids = rnd.sample(range(-50, 50), nv)
            vs = [(ids[i], types[i], rnd.random() < 0.3) for i in range(nv)]
            es = []
            for j in range(rnd.randint(1, 8)):
                ar = rnd.choice([1, 2, 2, 2, 3]) if nv >= 3 else rnd.choice([1, 2, 2])
                es.append(("cut", tuple(rnd.sample(ids, ar)), rnd.randint(1, 3)))
            shapes.append({"vertices": vs, "edges": es, "fix_first_pose": rnd.random() < 0.5, "idset": 9, "pattern": "random"})
    shapes.extend(real)
    # unique names
    out = []
    seen = set()
    for s in shapes:
        nm = name_of(s)
        if nm in seen:
            continue
        seen.add(nm)
        s["name"] = nm
        if well_posed_only and not well_posed(s):
            continue
        out.append(s)
    return out


def fixed_positions(shape):
    fp = [i for i, (_, _, f) in enumerate(shape["vertices"]) if f]
    if shape["fix_first_pose"] and 0 not in fp:
        fp = [0] + fp
    return sorted(fp)


def well_posed(shape):
    """Every connected component contains a fixed vertex."""
    n = len(shape["vertices"])
    pos = {vid: i for i, (vid, _, _) in enumerate(shape["vertices"])}
    parent = list(range(n))

    def find(a):
        while parent[a] != a:
            a = parent[a]
        return a
    for _, ids, _ in shape["edges"]:
        ps = [pos[i] for i in ids]
        for p in ps[1:]:
            parent[find(p)] = find(ps[0])
    fixed = set(fixed_positions(shape))
    comps = {}
    for i in range(n):
        comps.setdefault(find(i), []).append(i)
    return all(any(i in fixed for i in c) for c in comps.values())


def spec_inputs(k, shape, vs, es):
    """Per-edge (positions, e, Js, Omega) read from the edges' own public calc_error / calc_jacobians, as nested lists."""
    pos = {v.id: i for i, v in enumerate(vs)}
    out = []
    for e in es:
        err = e.calc_error()
        Js = e.calc_jacobians()
        m = len(err)
        Om = e.information
        out.append(([pos[i] for i in e.vertex_ids],
                    [err[i] for i in range(m)],
                    [[[J[r_, c] for c in range(J.shape[1])] for r_ in range(m)] for J in Js],
                    [[Om[r_, c] for c in range(m)] for r_ in range(m)]))
    return out


def assume_small_rotations(k, shape, call=0):
    """|dx_rot| <= 1 for every SE(3) vertex (the clamp branch of box-plus is proved separately, C09/C11)."""
    off = 0
    for _, T, _ in shape["vertices"]:
        c = POSE_C[T]
        if T == "SE3":
            d = [k.real("dx%d_%d" % (call, off + i)) for i in (3, 4, 5)]
            k.assume(d[0] * d[0] + d[1] * d[1] + d[2] * d[2] <= 1, "rotational update of norm <= 1")
        off += c
