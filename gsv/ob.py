"""Obligation records (shared by both interpreters)."""

TYPES = ["R2", "R3", "SE2", "SE3"]


class Ob:
    """One obligation: a goal-stating function over the kernel plus its bookkeeping.

    tier   "top"      post-condition taken from the property statement, public API only (decides)
           "internal" per-function contract derived from the code (localises; CONTRACT-DRIFT if only these fail)
           "canary"   the same obligation against a deliberately wrong spec: must FAIL
    scope  "unbounded"      proof for all inputs (numbers universal, discrete part complete)
           "shape-bounded"  proof for all numeric inputs of one concrete shape from a stated family
    """

    def __init__(self, oid, fn, tier="top", scope="unbounded", funcs=(), eager=False, solver=None,
                 numeric=True, num_points=3, tags=(), bound=None, max_paths=None, light=False, numeric_only=False):
        self.id = oid
        self.fn = fn
        self.tier = tier
        self.scope = scope
        self.funcs = tuple(funcs)
        self.eager = eager
        self.solver = solver          # name of a solver model for the spsolve stub (see gsv.solvers)
        self.numeric = numeric        # can be interpreted by the NumKernel
        self.num_points = num_points
        self.tags = tuple(tags)
        self.bound = bound
        self.max_paths = max_paths
        self.numeric_only = numeric_only    # floating-point corner: interpreted ONLY numerically on the real code (bounded, never counted as proved)
        self.light = light          # path feasibility from the atoms' signs only (definitions r^2=u left out: sound, may explore infeasible paths)

    def __repr__(self):
        return "Ob(%s)" % self.id
