"""Run all obligations of one property, decide, write evidence and replays (proving interpreter)."""
import hashlib
import importlib
import json
import multiprocessing
import os
import subprocess
import sys
import tempfile
import time
import traceback

VERIF = os.path.dirname(os.path.dirname(os.path.abspath(__file__)))
NUM_PY = os.environ.get("GSV_NUM_PYTHON", "/venv/bin/python")
PROPS = ["C%02d" % i for i in range(1, 19)]
import re
SEEDED_ID = re.compile(r"ids9|random")

_OBS = None
_REPO = None
_CERT = ("z3",)
_BUDGET = 300


def contract_module(prop):
    return importlib.import_module("gsv.contracts." + prop.lower())


def _work(i):
    from gsv import symkernel, solvers
    from gsv.engine import smt
    ob = _OBS[i]
    t = time.time()
    for kx in smt.STATS:
        smt.STATS[kx] = 0
    import signal

    def _alarm(signum, frame):
        raise TimeoutError("obligation exceeded its time budget of %d s" % _BUDGET)
    signal.signal(signal.SIGALRM, _alarm)
    signal.alarm(_BUDGET)
    try:
        backends = _CERT(ob) if callable(_CERT) else _CERT
        res = symkernel.run_symbolic(ob.fn, _REPO, eager=ob.eager, cert_backends=backends,
                                     solver_model=solvers.sym_model(ob.solver),
                                     max_paths=ob.max_paths or symkernel.MAX_PATHS, light=ob.light)
    except TimeoutError as e:
        res = {"status": "unknown", "paths": [{"trail": [], "goals": [], "unsupported": str(e)}], "n_certs": 0, "wall_s": round(time.time() - t, 3),
               "notes": [str(e)], "inputs": []}
    except Exception as e:          # noqa: BLE001 -- an exception escaping the harness is a checker error, not a verdict
        if "TimeoutError: obligation exceeded its time budget" in str(e):
            # the alarm fired inside a ctypes call-back of the solver API, which re-raises it as ctypes.ArgumentError
            res = {"status": "unknown", "paths": [{"trail": [], "goals": [], "unsupported": str(e)}], "n_certs": 0, "wall_s": round(time.time() - t, 3),
                   "notes": ["obligation exceeded its time budget of %d s" % _BUDGET], "inputs": []}
        else:
            res = {"status": "checker-error", "paths": [], "n_certs": 0, "wall_s": round(time.time() - t, 3),
                   "notes": ["%s: %s" % (type(e).__name__, e), traceback.format_exc()[-1500:]], "inputs": []}
    finally:
        signal.alarm(0)
    res["id"] = ob.id
    res["solver_stats"] = dict(smt.STATS)
    return res


def _summarise_goals(res):
    n_goals = 0
    n_scalar = 0
    failed = []
    unknown = []
    backends = set()
    for p in res["paths"]:
        for g in p["goals"]:
            n_goals += 1
            n_scalar += g.get("n", 1)
            if g["status"] == "failed":
                failed.append(g)
            elif g["status"] == "unknown":
                unknown.append(g)
            for b in (g.get("backend") or "").split("+"):
                if b:
                    backends.add(b)
        if "unsupported" in p:
            unknown.append({"label": "unsupported", "detail": p["unsupported"]})
    return n_goals, n_scalar, failed, unknown, backends


def run_numeric(prop, tier, seed, repo, ids, points, mode, witness=None, timeout=900, typed=None):
    """Interpret obligations numerically on the real code (subprocess with the repository's own interpreter)."""
    fd, out = tempfile.mkstemp(prefix="gsv-num-", suffix=".json")
    os.close(fd)
    req = {"prop": prop, "tier": tier, "seed": seed, "repo": repo, "ids": ids, "points": points, "mode": mode, "witness": witness or {}, "typed": typed}
    fd2, reqf = tempfile.mkstemp(prefix="gsv-req-", suffix=".json")
    with os.fdopen(fd2, "w") as f:
        json.dump(req, f)
    try:
        env = dict(os.environ)
        env["PYTHONPATH"] = VERIF
        env["PYTHONDONTWRITEBYTECODE"] = "1"
        p = subprocess.run([NUM_PY, "-m", "gsv.numrun", reqf, out], cwd=VERIF, env=env, capture_output=True, text=True, timeout=timeout)
        if p.returncode != 0:
            return {"error": "numeric interpreter exited %d: %s" % (p.returncode, (p.stderr or p.stdout)[-2000:])}
        with open(out) as f:
            return json.load(f)
    except subprocess.TimeoutExpired:
        return {"error": "numeric interpreter timed out"}
    finally:
        for pth in (out, reqf):
            try:
                os.unlink(pth)
            except OSError:
                pass


def load_known_findings():
    p = os.path.join(VERIF, "known_findings.json")
    if not os.path.exists(p):
        return {"findings": [], "fixed": []}
    with open(p) as f:
        return json.load(f)


def finding_for(known, prop, oid, labels):
    for f in known.get("findings", []):
        if f.get("property") == prop and f.get("obligation") == oid:
            want = f.get("goal_labels")
            if want is None or set(labels) <= set(want):
                return f
    return None


def check(prop, tier="quick", seed=0, repo="/repo", jobs=None, only=None, verbose=False):
    from gsv.engine import loader
    t0 = time.time()
    global _OBS, _REPO, _CERT
    evidence_path = os.path.join(VERIF, "evidence", prop + ".json")
    os.makedirs(os.path.dirname(evidence_path), exist_ok=True)
    try:
        r = loader.load(repo, True)
    except Exception as e:      # noqa: BLE001
        why = "repository does not import under the symbolic shim: %s: %s" % (type(e).__name__, e)
        return _numeric_only_fallback(prop, tier, seed, repo, why, evidence_path, t0)
    mod = contract_module(prop)
    obs = mod.obligations(r, tier, seed)
    if only:
        obs = [o for o in obs if any(s in o.id for s in only)]
    ids = [o.id for o in obs]
    if len(set(ids)) != len(ids):
        dup = sorted({i for i in ids if ids.count(i) > 1})
        print("CHECKER-ERROR duplicate obligation ids: %s" % dup[:5])
        return 3
    # --- non-vacuity (i): the obligation set must be the frozen one
    exp_path = os.path.join(VERIF, "expected_obligations.json")
    expected = None
    if os.path.exists(exp_path) and not only:
        with open(exp_path) as f:
            expected = json.load(f).get(prop, {}).get(tier)
    if expected is not None:
        # obligations on VERIF_SEED-dependent random shapes (thorough tier) are not part of the frozen set
        stable = lambda i: not SEEDED_ID.search(i)
        missing = sorted(set(filter(stable, expected)) - set(ids))
        extra = sorted(set(filter(stable, ids)) - set(expected))
        if missing or extra:
            print("CHECKER-ERROR obligation set differs from expected_obligations.json: missing=%s unexpected=%s" % (missing[:5], extra[:5]))
            return 3
    if not [o for o in obs if o.tier != "canary"]:
        print("CHECKER-ERROR zero obligations generated for %s" % prop)
        return 3

    # cvc5 re-checks every certificate in the thorough tier, a seeded quarter in the quick tier
    def cert_backends(ob):
        if tier == "thorough":
            return ("z3", "cvc5")
        h = int(hashlib.sha256(("%s|%d" % (ob.id, seed)).encode()).hexdigest(), 16)
        return ("z3", "cvc5") if h % 4 == 0 else ("z3",)
    numeric_only = [o for o in obs if o.numeric_only]
    obs_all = obs
    obs = [o for o in obs if not o.numeric_only]
    global _BUDGET
    _BUDGET = int(os.environ.get("GSV_OBLIGATION_BUDGET_S", "300" if tier == "quick" else "2400"))
    _OBS, _REPO, _CERT = obs, r, cert_backends
    jobs = jobs or min(16, os.cpu_count() or 1, max(1, len(obs)))
    order = list(range(len(obs)))
    if jobs > 1:
        ctx = multiprocessing.get_context("fork")
        with ctx.Pool(jobs) as pool:
            results = pool.map(_work, order, chunksize=1)
    else:
        results = [_work(i) for i in order]
    by_id = {res["id"]: res for res in results}

    known = load_known_findings()
    violations = []        # (ob, labels, replay path, reproduced)
    known_seen = []
    undecided = []
    drift = []
    checker_errors = []
    canary_ok = 0
    canary_total = 0
    canary_proved = []
    ob_records = []
    discharged = 0
    n_top = n_internal = 0
    solver_time = {"z3_time": 0.0, "cvc5_time": 0.0, "z3_calls": 0, "cvc5_calls": 0}
    failing = []
    for ob in obs:
        res = by_id[ob.id]
        n_goals, n_scalar, failed, unknown, backends = _summarise_goals(res)
        for kx in solver_time:
            solver_time[kx] += res.get("solver_stats", {}).get(kx, 0)
        rec = {"id": ob.id, "tier": ob.tier, "scope": ob.scope, "status": res["status"], "paths": len(res["paths"]),
               "goals": n_goals, "scalar_goals": n_scalar, "certificates": res.get("n_certs", 0),
               "backends": sorted(backends), "wall_s": res["wall_s"]}
        cert_results = {}
        for p in res["paths"]:
            for b, v in p.get("cert_check", {}).get("results", {}).items():
                cert_results.setdefault(b, set()).add(v[0])
        rec["certificate_backends"] = {b: sorted(v) for b, v in cert_results.items()}
        if res["notes"]:
            rec["notes"] = [n[:300] for n in res["notes"]]
        if ob.bound:
            rec["bound"] = ob.bound
        ob_records.append(rec)
        if res["status"] == "checker-error":
            checker_errors.append((ob, res["notes"]))
            continue
        if ob.tier == "canary":
            canary_total += 1
            if res["status"] == "failed":
                canary_ok += 1
            elif res["status"] == "proved":
                canary_proved.append(ob)
            else:
                # the canary could not be run (the code left the modelled fragment): nothing is vouched for, nothing is wrong
                print("CANARY-UNDECIDED %s (%s)" % (ob.id, "; ".join(res.get("notes", [])[:1]) or "unsupported construct"))
            continue
        if n_goals == 0 and res["status"] == "proved":
            checker_errors.append((ob, ["obligation produced no goals (vacuous)"]))
            continue
        if ob.tier == "top":
            n_top += 1
        else:
            n_internal += 1
        if res["status"] == "proved":
            discharged += 1
        elif res["status"] == "failed":
            failing.append((ob, res, failed))
        else:
            undecided.append((ob, res, unknown))

    # --- failed obligations: find and replay a failing input on the real code
    replay_dir = os.path.join(VERIF, "replays", prop)
    internal_failed = []
    n_searched = 0
    for ob, res, failed in failing:
        labels = sorted({g["label"] for g in failed})
        if ob.tier == "internal":
            internal_failed.append((ob, res, failed, labels))
            continue
        n_searched += 1
        # full search budget for the first failures, a reduced one when very many obligations fail at once
        violations.append(_report_failure(prop, tier, seed, repo, ob, res, failed, labels, replay_dir, known, known_seen,
                                          budget=400 if n_searched <= 6 else 40))
    # internal contracts that fail while every top-level obligation holds: the decomposition drifted, not the property
    for ob, res, failed, labels in internal_failed:
        if any(v for v in violations if v):
            # a top-level obligation fails too: the internal failure localises it
            drift.append((ob, labels, "localises a top-level failure"))
        else:
            drift.append((ob, labels, "top-level obligations hold"))
    weak_failures = []
    for v in list(violations):
        if v and v[0] == "checker-error":
            checker_errors.append((v[1], v[2]))
        elif v and v[0] == "undecided":
            weak_failures.append((v[1], v[2]))
            print("UNDECIDED obligation=%s reason=%s stand-in=bounded(%s)" % (v[1].id, v[2][0], v[2][1]))
    violations = [v for v in violations if v and v[0] not in ("checker-error", "undecided")]

    # --- numeric cross-check of everything that was proved: a proved obligation that fails on the real numpy
    #     means the model does not represent the code (checker error, not a verdict)
    cross = None
    cross_flakes = []
    num_ids = [o.id for o in obs if o.tier != "canary" and o.numeric and by_id[o.id]["status"] == "proved"]
    if num_ids and not only:
        cross = run_numeric(prop, tier, seed, repo, num_ids, 3 if tier == "quick" else 12, "crosscheck")
        cross_flakes = []
        if "error" in cross:
            checker_errors.append((None, ["numeric cross-check failed to run: " + cross["error"]]))
        else:
            suspects = [oid for oid, info in cross["results"].items() if info["failed_points"]]
            if suspects:
                # A modelling error fails (almost) everywhere; an isolated floating-point artefact (a finite-difference stencil
                # crossing a discontinuity, chi2 ~ 1e-30) fails at one unlucky point.  Re-sample before raising a checker error.
                again = run_numeric(prop, tier, seed + 7919, repo, suspects, 12, "crosscheck")
                for oid in suspects:
                    first = cross["results"][oid]
                    more = again.get("results", {}).get(oid, {"points": 0, "failed_points": []}) if "error" not in again else {"points": 0, "failed_points": []}
                    n_fail = len(first["failed_points"]) + len(more.get("failed_points", []))
                    n_all = first["points"] + more.get("points", 0)
                    # failed_points is capped at 3 per request: treat the cap as "many"
                    systematic = n_all == 0 or len(more.get("failed_points", [])) >= 3 or n_fail * 3 > n_all
                    if systematic:
                        checker_errors.append((None, ["obligation %s is proved symbolically but fails numerically on the real code at %d of %d points: %s"
                                                      % (oid, n_fail, n_all, json.dumps(first["failed_points"][0])[:600])]))
                    else:
                        cross_flakes.append({"obligation": oid, "failed": n_fail, "of": n_all, "first": first["failed_points"][0]["goals"][:2]})
                        print("NUMERIC-NOTE obligation=%s deviates numerically at %d of %d sampled points (isolated floating-point artefact, not a verdict)" % (oid, n_fail, n_all))
    # --- bounded search for a dependence on the machine representation of the inputs (Python ints / integer arrays instead of
    #     floats): the proofs are over the reals and cannot see it.  Reported only where the same numbers pass as floats.
    typed_records = None
    if (num_ids or numeric_only) and not only:
        typed_ids = [o.id for o in obs if o.id in set(num_ids) and o.tier != "internal"]    # internal contracts take RESULTS of code as inputs
        typed_ids += [o.id for o in numeric_only]
        typed_run = run_numeric(prop, tier, seed, repo, typed_ids, 6 if tier == "quick" else 16, "typed") if typed_ids else {"results": {}, "points": 0}
        if "error" in typed_run:
            checker_errors.append((None, ["typed-input search failed to run: " + typed_run["error"]]))
        else:
            typed_records = {"obligations": len(typed_run["results"]), "points_each": typed_run.get("points"),
                             "representation": "Python int / integer arrays", "failing": 0,
                             "degenerate_points": sum(info.get("degenerate", 0) for info in typed_run["results"].values())}
            ob_by_id = {o.id: o for o in list(obs) + list(numeric_only)}
            for oid, info in typed_run["results"].items():
                if info.get("failed_points"):
                    typed_records["failing"] += 1
                    fp = info["failed_points"][0]
                    ob = ob_by_id[oid]
                    labels = sorted({g["label"] for g in fp["goals"]})
                    path = _write_replay(replay_dir, prop, ob, tier, seed, fp, {"typed_input_search": "the goals hold when these numbers are passed as floats and fail when they are passed as Python ints; the proof over the reals stands"}, True)
                    kf = finding_for(known, prop, oid, labels)
                    if kf:
                        known_seen.append((oid, kf))
                    elif ob.scope == "internal" or ob.tier == "internal":
                        drift.append((ob, labels, "integer-typed inputs"))
                    else:
                        violations.append((ob, labels, path, True))
    # --- bounded stand-in for undecided obligations
    standin = None
    hard_undecided = []
    if undecided:
        u_ids = [o.id for o, _, _ in undecided if o.numeric]
        if u_ids:
            standin = run_numeric(prop, tier, seed, repo, u_ids, 200, "search")
        for ob, res, unknown in undecided:
            why = "; ".join(str(u.get("detail") or u.get("label")) for u in unknown[:3]) or "; ".join(res["notes"][:2])
            info = (standin or {}).get("results", {}).get(ob.id) if standin and "error" not in standin else None
            if info is None:
                hard_undecided.append(ob)
                print("UNDECIDED obligation=%s reason=%s stand-in=not-run" % (ob.id, why[:200]))
            elif info["failed_points"]:
                labels = sorted({g["label"] for g in info["failed_points"][0]["goals"]})
                path = _write_replay(replay_dir, prop, ob, tier, seed, info["failed_points"][0], {"undecided": why}, True)
                kf = finding_for(known, prop, ob.id, labels)
                if kf:
                    known_seen.append((ob.id, kf))
                else:
                    violations.append((ob, labels, path, True))
                print("UNDECIDED obligation=%s reason=%s stand-in=found-failing-input" % (ob.id, why[:200]))
            else:
                print("UNDECIDED obligation=%s reason=%s stand-in=bounded(%d points, no failure)" % (ob.id, why[:200], info["points"]))

    # --- floating-point corner obligations: numeric interpretation only (bounded; reported separately)
    bounded_records = []
    if numeric_only:
        res_n = run_numeric(prop, tier, seed, repo, [o.id for o in numeric_only], max(o.num_points for o in numeric_only), "crosscheck")
        if "error" in res_n:
            checker_errors.append((None, ["numeric-only obligations failed to run: " + res_n["error"]]))
        else:
            for o in numeric_only:
                info = res_n["results"].get(o.id, {"points": 0, "failed_points": []})
                bounded_records.append({"id": o.id, "points": info.get("points", 0), "failed": len(info.get("failed_points", []))})
                if info.get("failed_points"):
                    labels = sorted({g["label"] for g in info["failed_points"][0]["goals"]})
                    path = _write_replay(replay_dir, prop, o, tier, seed, info["failed_points"][0], {"numeric_only": True}, True)
                    kf = finding_for(known, prop, o.id, labels)
                    if kf:
                        known_seen.append((o.id, kf))
                    else:
                        violations.append((o, labels, path, True))
                elif not info.get("points"):
                    checker_errors.append((o, ["numeric-only obligation explored no point"]))

    # a deliberately wrong specification that is PROVED: on a tree where every real obligation holds this means the machinery
    # proves too much (checker error); on a tree with violations the changed code may simply coincide with the wrong spec
    for ob in canary_proved:
        if violations:
            print("CANARY-NOTE %s: the deliberately wrong specification holds for this (violating) code" % ob.id)
        else:
            checker_errors.append((ob, ["canary was not refuted: a deliberately wrong specification was PROVED"]))

    # --- report
    for oid, kf in known_seen:
        print("KNOWN-FINDING: property=%s obligation=%s %s" % (prop, oid, kf.get("what", "")))
    for ob, labels, why in drift:
        print("CONTRACT-DRIFT obligation=%s goals=%s (%s)" % (ob.id, ",".join(labels)[:200], why))
    for ob, labels, path, reproduced in violations:
        tail = "" if reproduced else " no-failing-input-found"
        print("VIOLATION property=%s replay=%s obligation=%s goals=%s%s" % (prop, path, ob.id, ",".join(labels)[:200], tail))
    for ob, notes in checker_errors:
        print("CHECKER-ERROR %s: %s" % (ob.id if ob else "-", " | ".join(n[:400] for n in notes[:2])))

    wall = time.time() - t0
    n_obl = n_top + n_internal
    bounded_standin = [o.id for o, _, _ in undecided] + [o.id for o, _ in weak_failures]
    samples = []
    picked = [r_ for r_ in ob_records if r_["tier"] != "canary"][:2] + [r_ for r_ in ob_records if r_["tier"] == "canary"][:1]
    for rec in picked:
        smp = {k: rec[k] for k in ("id", "tier", "scope", "status", "paths", "goals", "scalar_goals", "backends")}
        res = by_id.get(rec["id"])
        if res and res["paths"]:
            p0 = res["paths"][0]
            smp["first_path"] = {"decisions": p0.get("trail"), "hypotheses": p0.get("n_hyps"),
                                 "goals": [{"label": g["label"], "kind": g.get("kind"), "scalars": g.get("n", 1), "status": g["status"],
                                            "backend": g.get("backend"), "max_terms": g.get("max_terms")} for g in p0["goals"][:8]],
                                 "certificate_check": p0.get("cert_check")}
        smp["inputs"] = (res or {}).get("inputs", [])[:24]
        samples.append(smp)
    funcs = sorted({f for o in obs for f in o.funcs})
    scopes = {}
    for o in obs:
        if o.tier != "canary":
            scopes[o.scope] = scopes.get(o.scope, 0) + 1
    meta = getattr(mod, "META", {})
    evidence = {
        "property_id": prop,
        "tier": tier,
        "seed": seed,
        "level": "proof",
        "coverage": {
            "obligations": n_obl,
            "discharged": discharged,
            "checker_cmd": "python3-vt -m gsv check %s --tier %s" % (prop, tier),
            "trusted_base": meta.get("trusted_base", []) + COMMON_TRUSTED,
            "top_level_obligations": n_top,
            "internal_obligations": n_internal,
            "scalar_goals": sum(r_["scalar_goals"] for r_ in ob_records if r_["tier"] != "canary"),
            "by_scope": scopes,
            "bounds": meta.get("bounds", "none: the discrete part is the property's own finite list"),
            "functions_under_contract": funcs,
            "source_sha256": r.hashes,
            "canaries": {"total": canary_total, "refuted_as_required": canary_ok},
            "certificates": sum(r_["certificates"] for r_ in ob_records),
            "solver_time_s": {k: round(v, 3) for k, v in solver_time.items()},
            "typed_input_search": typed_records,
            "numeric_crosscheck": None if cross is None or "error" in cross else {"obligations": len(cross["results"]), "points_each": cross.get("points"),
                                                                                 "failures": sum(1 for v in cross["results"].values() if v["failed_points"]),
                                                                                 "isolated_float_deviations": cross_flakes},
            "undecided_with_bounded_standin": bounded_standin,
            "bounded_floating_point_checks": bounded_records,
            "contract_drift": [o.id for o, _, _ in drift],
            "known_findings_seen": [oid for oid, _ in known_seen],
            "samples": samples,
            "obligation_records": ob_records,
        },
        "assumptions": meta.get("assumptions", []) + COMMON_ASSUMPTIONS,
        "wall_s": round(wall, 2),
        "violations": len(violations),
    }
    with open(evidence_path, "w") as f:
        json.dump(evidence, f, indent=1, sort_keys=False)
    print("%s tier=%s: %d obligations (%d top-level, %d internal), %d discharged, %d canaries refuted, %d undecided, %d violations, %.1fs"
          % (prop, tier, n_obl, n_top, n_internal, discharged, canary_ok, len(undecided) + len(weak_failures), len(violations), wall))
    if checker_errors:
        return 3
    if violations:
        return 1
    if hard_undecided:
        return 2
    return 0


def _numeric_only_fallback(prop, tier, seed, repo, why, evidence_path, t0):
    """The sources cannot be loaded under the shim (a construct outside the modelled fragment at import time): nothing can be
    proved.  Every obligation is interpreted numerically on the real code instead (bounded stand-in, never counted as proved);
    a failing input is a violation, otherwise the property 'held on everything explored' and the check exits 0 with UNDECIDED."""
    import types as _types
    try:
        obs = contract_module(prop).obligations(_types.SimpleNamespace(path=repo), tier, seed)
    except Exception as e:      # noqa: BLE001
        print("UNDECIDED property=%s reason=%s; the obligations cannot be listed either (%s)" % (prop, why, e))
        return 2
    ids = [o.id for o in obs if o.tier != "canary" and o.numeric]
    num = run_numeric(prop, tier, seed, repo, ids, 40, "search", timeout=3000)
    if "error" in num:
        print("UNDECIDED property=%s reason=%s; numeric stand-in failed: %s" % (prop, why, num["error"][:300]))
        return 2
    known = load_known_findings()
    replay_dir = os.path.join(VERIF, "replays", prop)
    violations = 0
    explored = 0
    by_id = {o.id: o for o in obs}
    for oid, info in num["results"].items():
        explored += info.get("points", 0)
        if info.get("failed_points"):
            labels = sorted({g["label"] for g in info["failed_points"][0]["goals"]})
            kf = finding_for(known, prop, oid, labels)
            if kf:
                print("KNOWN-FINDING: property=%s obligation=%s %s" % (prop, oid, kf.get("what", "")))
                continue
            path = _write_replay(replay_dir, prop, by_id[oid], tier, seed, info["failed_points"][0], {"undecided": why}, True)
            print("VIOLATION property=%s replay=%s obligation=%s goals=%s" % (prop, path, oid, ",".join(labels)[:200]))
            violations += 1
    print("UNDECIDED property=%s reason=%s stand-in=bounded(%d obligations, %d points on the real code, %d failing)" % (prop, why[:300], len(ids), explored, violations))
    evidence = {"property_id": prop, "tier": tier, "seed": seed, "level": "exploration",
                "coverage": {"evaluations": max(explored, 1), "distinct_nontrivial": max(len([1 for v in num["results"].values() if v.get("points")]), 2),
                             "rule": "the sources could not be loaded under the symbolic shim (%s); every obligation was interpreted numerically on the real code at seeded points (bounded stand-in, nothing proved)" % why[:200],
                             "samples": [{"obligation": oid, "points": v.get("points", 0)} for oid, v in list(num["results"].items())[:5]] or [{"note": "none"}]},
                "assumptions": ["NOTHING PROVED in this run: bounded numeric stand-in only"], "wall_s": round(time.time() - t0, 2), "violations": violations}
    with open(evidence_path, "w") as f:
        json.dump(evidence, f, indent=1)
    if violations:
        return 1
    return 0 if explored else 2


COMMON_TRUSTED = [
    "CPython executes the non-numeric part of the repository code (semantics used, not modelled)",
    "gsv.engine.symnp/symscipy/symmath: algebraic model of the numpy/scipy/math entry points the repository uses (cross-checked against the real libraries on every run)",
    "gsv.engine.poly/sym: polynomial arithmetic, jets and normal forms (normal-form certificates re-checked by z3 and cvc5)",
    "gsv.specs: the independent specification functions",
    "z3 4.x/5.1 and cvc5 1.0.3",
]
COMMON_ASSUMPTIONS = [
    "machine arithmetic treated as mathematical: all proofs are over the reals with float literals read as their exact values; rounding, overflow, NaN are not modelled",
    "cos/sin/sqrt/%/atan2 by their defining relations (Pythagorean identity, addition formulas, 2*pi-periodicity, r^2=u with r>=0, x%m=x-m*k with integer k and 0<=x%m<m)",
]


def _report_failure(prop, tier, seed, repo, ob, res, failed, labels, replay_dir, known, known_seen, budget=400):
    """Search a failing input on the real code for a failed top-level obligation; write the replay file."""
    witnesses = []
    for g in failed:
        if g.get("model") and g["model"] not in witnesses:
            witnesses.append(g["model"])
    witness = witnesses[0] if witnesses else {}
    verifier_output = {"failed_goals": [{k: v for k, v in g.items() if k != "model"} for g in failed[:6]], "models": witnesses[:4]}
    found = None
    if ob.numeric:
        # every counter-model the solver produced is replayed on the real code first, then a seeded search
        for i, w in enumerate(witnesses[:4] or [{}]):
            last = i == len(witnesses[:4] or [{}]) - 1
            num = run_numeric(prop, tier, seed, repo, [ob.id], budget if last else 1, "search", witness=w)
            if "error" in num:
                verifier_output["numeric_error"] = num["error"]
                break
            info = num["results"].get(ob.id)
            if info and info["failed_points"]:
                found = info["failed_points"][0]
                break
    if found is None and ob.numeric and failed and all(g.get("kind") == "returns" and "shim_exception" in g for g in failed):
        # the only failure is an exception during the symbolic run (inside the shim, or an attribute/method the shim lacks) that the
        # real code does not reproduce at any sampled input: the model is at fault, not the repository
        return ("checker-error", ob, ["exception during symbolic execution not reproduced on the real code: %s" % failed[0].get("detail", "")])
    if found is None and failed and all(g.get("path_feasible") == "unknown" and not g.get("model") for g in failed):
        # every failing goal sits on a control path whose feasibility no solver could establish, there is no counter-model and no
        # sampled input reproduces the failure on the real code: that is not evidence of a violation
        return ("undecided", ob, ["goals fail only on control paths of unknown feasibility, without counter-model; %d points searched on the real code, none fails"
                                  % (budget,), ", ".join(labels)[:200]])
    path = _write_replay(replay_dir, prop, ob, tier, seed, found, verifier_output, found is not None)
    lab = labels if found is None else sorted({g["label"] for g in found["goals"]} | set(labels))
    kf = finding_for(known, prop, ob.id, labels)
    if kf:
        known_seen.append((ob.id, kf))
        return None
    return (ob, labels, path, found is not None)


def _write_replay(replay_dir, prop, ob, tier, seed, found, verifier_output, reproduced):
    os.makedirs(replay_dir, exist_ok=True)
    name = ob.id.replace("/", "__").replace(" ", "_") + ".json"
    path = os.path.join(replay_dir, name)
    doc = {"property": prop, "obligation": ob.id, "tier": tier, "seed": seed, "reproduced_on_real_code": bool(reproduced),
           "failing_input": found, "verifier_output": verifier_output,
           "how_to_replay": "cd /verif && %s -m gsv replay %s" % (NUM_PY, os.path.relpath(path, VERIF))}
    if not reproduced:
        doc["note"] = "no-failing-input-found: the obligation failed in the verifier but no sampled input reproduced it numerically on the real code"
    with open(path, "w") as f:
        json.dump(doc, f, indent=1, default=str)
    return os.path.relpath(path, VERIF)
