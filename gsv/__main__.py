"""Command line: python3-vt -m gsv check <property> [--tier quick|thorough] | replay <file> | setup | freeze | selftest"""
import argparse
import json
import os
import sys


def main():
    ap = argparse.ArgumentParser(prog="gsv")
    sub = ap.add_subparsers(dest="cmd", required=True)
    c = sub.add_parser("check")
    c.add_argument("prop")
    c.add_argument("--tier", default=os.environ.get("VERIF_TIER", "quick"))
    c.add_argument("--repo", default=os.environ.get("GSV_REPO", "/repo"))
    c.add_argument("--jobs", type=int, default=None)
    c.add_argument("--only", action="append")
    rp = sub.add_parser("replay")
    rp.add_argument("path")
    rp.add_argument("--repo", default=os.environ.get("GSV_REPO", "/repo"))
    sub.add_parser("setup")
    fz = sub.add_parser("freeze")
    fz.add_argument("props", nargs="*")
    st = sub.add_parser("selftest")
    st.add_argument("--props", nargs="*")
    st.add_argument("--kind", default="all")
    args = ap.parse_args()
    seed = int(os.environ.get("VERIF_SEED", "0") or 0)
    if args.cmd == "check":
        from gsv import runner
        tier = args.tier if args.tier in ("quick", "thorough") else "quick"
        sys.exit(runner.check(args.prop.upper(), tier, seed, args.repo, jobs=args.jobs, only=args.only))
    if args.cmd == "replay":
        from gsv import replay
        sys.exit(replay.main(args.path, args.repo))
    if args.cmd == "setup":
        from gsv import setup_check
        sys.exit(setup_check.main())
    if args.cmd == "freeze":
        from gsv import freeze
        sys.exit(freeze.main(args.props))
    if args.cmd == "selftest":
        from gsv import selftest
        sys.exit(selftest.main(args.props, args.kind))


if __name__ == "__main__":
    main()
