"""Numeric interpretation of obligations on the real code (run with the repository's interpreter).

usage: python -m gsv.numrun request.json out.json
modes: crosscheck  N seeded points per obligation, report failing goals
       search      up to N points (the witness, if any, first), stop at the first failing point
       replay      exactly the given point
"""
import contextlib
import importlib
import io
import json
import random
import sys
import time
import warnings


def run_one(ob, r, point, seed, typed=None):
    from gsv.kernel import NumKernel, Reject
    from gsv.engine.sym import Unsupported
    from gsv import solvers
    from gsv.engine import loader
    loader.restore_state(r)
    k = NumKernel(r, point=point, seed=seed, typed=typed)
    undo = solvers.install_numeric(ob.solver, r, random.Random(seed))
    err = None
    try:
        with warnings.catch_warnings():
            warnings.simplefilter("ignore")
            with contextlib.redirect_stdout(io.StringIO()):
                ob.fn(k)
    except Reject:
        return None
    except Unsupported as e:
        return {"skip": str(e)}
    except Exception as e:      # noqa: BLE001 -- an exception escaping the obligation is an observation
        import traceback
        err = "%s: %s | %s" % (type(e).__name__, e, traceback.format_exc()[-600:])
    finally:
        undo()
    failed = [g for g in k.goals if not g["ok"]]
    if err:
        failed.append({"label": "exception", "kind": "exception", "ok": False, "detail": err})
    out = {"point": k.draws, "goals": failed, "n_goals": len(k.goals)}
    if typed:
        out["typed"] = typed
    return out


def run_typed(ob, r, points, base):
    """Bounded search for a REPRESENTATION dependence: draw integer-valued inputs, hand them to the code as Python ints (arrays of
    them are integer arrays), and where a goal fails, run the same numbers again as floats.  A point where the goals hold for the
    floats and fail for the ints is a failing input of the property (2 and 2.0 are the same number); a point where both fail
    is a degenerate point of the sampled family and is not reported here."""
    done = 0
    tries = 0
    found = []
    degenerate = 0
    while done < points and tries < points * 3 + 10:
        tries += 1
        res = run_one(ob, r, None, base + 977 * tries, typed="int")
        if res is None:
            continue
        if "skip" in res:
            return {"points": 0, "failed_points": [], "skipped": res["skip"]}
        done += 1
        if res["goals"]:
            as_float = run_one(ob, r, {n: float(v) for n, v in res["point"].items() if isinstance(v, (int, float))}, base)
            if as_float is not None and "skip" not in as_float and not as_float["goals"]:
                found.append(res)
                break
            degenerate += 1
    return {"points": done, "failed_points": found[:1], "degenerate": degenerate}


def main(argv):
    with open(argv[1]) as f:
        req = json.load(f)
    from gsv.engine import loader
    r = loader.load(req["repo"], symbolic=False)
    mod = importlib.import_module("gsv.contracts." + req["prop"].lower())
    obs = {o.id: o for o in mod.obligations(r, req["tier"], req["seed"])}
    out = {"results": {}, "points": req["points"], "mode": req["mode"]}
    t0 = time.time()
    for oid in req["ids"]:
        ob = obs.get(oid)
        if ob is None:
            out["results"][oid] = {"points": 0, "failed_points": [], "error": "unknown obligation"}
            continue
        if req["mode"] == "typed":
            out["results"][oid] = run_typed(ob, r, req["points"], random.Random("%s|%s|typed" % (oid, req["seed"])).randrange(1 << 30))
            continue
        failed_points = []
        done = 0
        tries = 0
        witness = req.get("witness") or None
        limit = req["points"]
        base = random.Random("%s|%s" % (oid, req["seed"])).randrange(1 << 30)
        while done < limit and tries < limit * 3 + 20:
            tries += 1
            if req["mode"] == "replay":
                res = run_one(ob, r, witness, base, typed=req.get("typed"))
            elif witness and tries == 1:
                res = run_one(ob, r, witness, base)
            else:
                res = run_one(ob, r, None, base + tries)
            if res is None:
                if req["mode"] == "replay":
                    out["results"][oid] = {"points": 0, "failed_points": [], "rejected": True}
                    break
                continue
            if "skip" in res:
                out["results"].setdefault(oid, {"points": 0, "failed_points": [], "skipped": res["skip"]})
                break
            done += 1
            if res["goals"]:
                failed_points.append(res)
                if req["mode"] in ("search", "replay"):
                    break
            if req["mode"] == "replay":
                break
        if oid not in out["results"]:
            out["results"][oid] = {"points": done, "failed_points": failed_points[:3]}
    out["wall_s"] = round(time.time() - t0, 2)
    with open(argv[2], "w") as f:
        json.dump(out, f, default=str)
    return 0


if __name__ == "__main__":
    sys.exit(main(sys.argv))
