#!/bin/bash
# usage: process_seed.sh <worktree> <prop> [more props] : confirm the seeded change, then run the quick checks against it
wt=$1; shift
echo "##### $wt"
/verif/tools/confirm_seed.sh $wt 2>&1 | egrep "passed|failed|exit|no change"
/verif/tools/try_seed.sh $wt "$@"
