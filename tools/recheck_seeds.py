#!/usr/bin/env python3
"""Regression over everything under seeded/: every property-breaking change must be reported (exit 1, VIOLATION of the
property it breaks), every benign refactor must stay silent (exit 0 for its most relevant properties).  Each patch is
applied to a scratch copy of /repo's HEAD (git archive), never to /repo itself.

usage: python3 tools/recheck_seeds.py [substring ...]"""
import json, os, shutil, subprocess, sys, tempfile

VERIF = os.path.dirname(os.path.dirname(os.path.abspath(__file__)))


def run(prop, repo):
    p = subprocess.run(["python3-vt", "-m", "gsv", "check", prop, "--repo", repo], cwd=VERIF, capture_output=True, text=True)
    lines = [l for l in p.stdout.splitlines() if l.startswith(("VIOLATION", "CHECKER-ERROR", "UNDECIDED"))]
    return p.returncode, lines


def main(filters):
    ok = True
    backup = tempfile.mkdtemp(prefix="gsv-evid-")
    for d in ("evidence",):
        shutil.copytree(os.path.join(VERIF, d), os.path.join(backup, d))
    try:
        for sid in sorted(os.listdir(os.path.join(VERIF, "seeded"))):
            if filters and not any(f in sid for f in filters):
                continue
            meta = json.load(open(os.path.join(VERIF, "seeded", sid, "meta.json")))
            tmp = tempfile.mkdtemp(prefix="gsv-seed-")
            try:
                subprocess.run("git -C /repo archive HEAD graphslam | tar -x -C %s" % tmp, shell=True, check=True)
                subprocess.run(["patch", "-p1", "-s", "-i", os.path.join(VERIF, "seeded", sid, "patch.diff")], cwd=tmp, check=True)
                if meta.get("kind") == "benign-refactor":
                    for prop in meta["most_relevant_properties"]:
                        rc, lines = run(prop, tmp)
                        good = rc == 0 and not [l for l in lines if l.startswith(("VIOLATION", "CHECKER"))]
                        ok = ok and good
                        print("%s benign   %-52s %s exit=%d %s" % ("ok  " if good else "FAIL", sid, prop, rc, "" if good else " | ".join(lines[:2])[:200]), flush=True)
                else:
                    # (three round-7 changes are detected through a neighbouring property's check only: recorded in their meta.json)
                    prop = meta.get("detect_with_property", meta["breaks_property"])
                    rc, lines = run(prop, tmp)
                    good = rc == 1 and any(l.startswith("VIOLATION property=%s" % prop) for l in lines)
                    ok = ok and good
                    print("%s breaking %-52s %s exit=%d %s" % ("ok  " if good else "FAIL", sid, prop, rc, "" if good else " | ".join(lines[:2])[:200]), flush=True)
            finally:
                shutil.rmtree(tmp, ignore_errors=True)
    finally:
        shutil.rmtree(os.path.join(VERIF, "evidence"), ignore_errors=True)
        shutil.copytree(os.path.join(backup, "evidence"), os.path.join(VERIF, "evidence"))
        shutil.rmtree(os.path.join(VERIF, "replays"), ignore_errors=True)
        shutil.rmtree(backup, ignore_errors=True)
    print("recheck_seeds: %s" % ("all as expected" if ok else "SOME NOT AS EXPECTED"))
    return 0 if ok else 1


if __name__ == "__main__":
    sys.exit(main(sys.argv[1:]))
