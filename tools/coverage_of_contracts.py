#!/venv/bin/python
"""Which lines of the repository does NO obligation execute?

Runs every obligation of every claimed property once (numeric interpretation, thorough tier, canaries included) on the real
code under coverage.py and prints, per repository file, the executable lines that were never reached.  Those lines are outside
every contract: a change confined to them cannot be noticed by any check.  The result is recorded in
notes/unreached-lines.json and summarised in DESIGN.md; it is a development aid, not part of a registered check.

usage: /venv/bin/python tools/coverage_of_contracts.py [--repo /repo] [--tier thorough]
"""
import importlib
import json
import os
import sys

VERIF = os.path.dirname(os.path.dirname(os.path.abspath(__file__)))
sys.path.insert(0, VERIF)


def main():
    import argparse
    ap = argparse.ArgumentParser()
    ap.add_argument("--repo", default="/repo")
    ap.add_argument("--tier", default="thorough")
    ap.add_argument("--points", type=int, default=2)
    a = ap.parse_args()
    import coverage
    cov = coverage.Coverage(include=[os.path.join(a.repo, "graphslam", "*")], data_file=None, branch=True)
    cov.start()
    from gsv.engine import loader
    from gsv import numrun
    r = loader.load(a.repo, symbolic=False)
    manifest = json.load(open(os.path.join(VERIF, "MANIFEST.json")))
    props = [c["property_id"] if "property_id" in c else c["id"] for c in manifest["checks"]]
    n = 0
    for prop in props:
        mod = importlib.import_module("gsv.contracts." + prop.lower())
        for ob in mod.obligations(r, a.tier, 0):
            for t in range(a.points):
                try:
                    numrun.run_one(ob, r, None, 1000 * t + 17)
                except BaseException as e:      # noqa: BLE001
                    print("  (obligation %s: %s)" % (ob.id, type(e).__name__))
            n += 1
    cov.stop()
    out = {}
    total_missing = 0
    total = 0
    for f in sorted(cov.get_data().measured_files()):
        _, statements, _, missing, _ = cov.analysis2(f)
        rel = os.path.relpath(f, a.repo)
        total += len(statements)
        total_missing += len(missing)
        if missing:
            src = open(f).read().splitlines()
            out[rel] = [{"line": m, "text": src[m - 1].strip()} for m in missing]
    print("%d obligations run; %d of %d executable lines of graphslam/ never reached" % (n, total_missing, total))
    for rel, miss in out.items():
        print(rel)
        for m in miss:
            print("   %4d  %s" % (m["line"], m["text"][:120]))
    os.makedirs(os.path.join(VERIF, "notes"), exist_ok=True)
    json.dump({"obligations_run": n, "executable_lines": total, "unreached": out}, open(os.path.join(VERIF, "notes", "unreached-lines.json"), "w"), indent=1)


if __name__ == "__main__":
    main()
