#!/bin/bash
# usage: try_seed.sh <worktree> <prop> [more props]: run the quick checks against the worktree that holds the seeded change
wt=$1; shift
cd /verif
for p in "$@"; do
  python3-vt -m gsv check $p --repo $wt 2>&1 | grep -v conda | egrep "VIOLATION|CHECKER|UNDECIDED|DRIFT|tier=" | cut -c1-330 | tail -6
done
git -C /verif checkout -q -- evidence 2>/dev/null
rm -rf /verif/replays
