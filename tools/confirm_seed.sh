#!/bin/bash
# usage: confirm_seed.sh <worktree> : confirm that the seeded change passes the suite, and that demo.py fails with / passes without it
# (the stash of a repository is shared by all its worktrees, so the change is taken out and put back with `git apply`, not `git stash`)
wt=$1
cd $wt || exit 2
tmp=$(mktemp -d)
git diff -- graphslam > $tmp/change.diff
[ -s $tmp/change.diff ] || { echo "no change in worktree"; rm -rf $tmp; exit 2; }
echo "--- suite with the change"; /venv/bin/python -m pytest -q -p no:cacheprovider --timeout=900 2>&1 | tail -1
echo "--- demo with the change"; /venv/bin/python demo.py > $tmp/with.txt 2>&1; echo "exit $?"; tail -3 $tmp/with.txt
git apply -R $tmp/change.diff || { echo "could not take the change out"; rm -rf $tmp; exit 2; }
echo "--- demo without the change"; /venv/bin/python demo.py > $tmp/without.txt 2>&1; echo "exit $?"; tail -2 $tmp/without.txt
git apply $tmp/change.diff || echo "COULD NOT PUT THE CHANGE BACK: $tmp/change.diff kept"
git diff --quiet -- graphslam && echo "WARNING: worktree has no change after re-applying"
rm -rf $tmp
