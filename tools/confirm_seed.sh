#!/bin/bash
# usage: confirm_seed.sh <worktree> : confirm that the seeded change passes the suite, and that demo.py fails with / passes without it
wt=$1
cd $wt || exit 2
git diff -- graphslam > /tmp/confirm_seed.diff
[ -s /tmp/confirm_seed.diff ] || { echo "no change in worktree"; exit 2; }
echo "--- suite with the change"; /venv/bin/python -m pytest -q -p no:cacheprovider --timeout=900 2>&1 | tail -1
echo "--- demo with the change"; /venv/bin/python demo.py > /tmp/confirm_demo_with.txt 2>&1; echo "exit $?"; tail -3 /tmp/confirm_demo_with.txt
git stash -q -- graphslam
echo "--- demo without the change"; /venv/bin/python demo.py > /tmp/confirm_demo_without.txt 2>&1; echo "exit $?"; tail -2 /tmp/confirm_demo_without.txt
git stash pop -q
