#!/bin/bash
# usage: try_refactor.sh <worktree> : run ALL quick checks against a behaviour-preserving refactor; everything must exit 0
wt=$1
cd /verif
echo "##### $wt"
( cd $wt && /venv/bin/python -m pytest -q -p no:cacheprovider --timeout=900 2>&1 | tail -1; /venv/bin/python equiv.py > /tmp/equiv_out.txt 2>&1; echo "equiv exit $?" )
for p in C01 C02 C03 C04 C06 C07 C08 C09 C10 C11 C12 C13 C14 C15 C16 C17 C18; do
  out=$(python3-vt -m gsv check $p --repo $wt 2>&1 | grep -v conda | egrep "VIOLATION|CHECKER|UNDECIDED|DRIFT|CANARY|NUMERIC|tier=" )
  rc=$(echo "$out" | egrep -c "VIOLATION|CHECKER|UNDECIDED|DRIFT|CANARY-UNDECIDED")
  if [ "$rc" != "0" ]; then echo "$out" | cut -c1-300 | head -6; else echo "$out" | tail -1 | cut -c1-120; fi
done
git -C /verif checkout -q -- evidence 2>/dev/null
rm -rf /verif/replays
