#!/usr/bin/env python3
"""Generate /verif/MANIFEST.json from the per-property table in tools/manifest_table.json."""
import json
import os

HERE = os.path.dirname(os.path.abspath(__file__))
VERIF = os.path.dirname(HERE)
table = json.load(open(os.path.join(HERE, "manifest_table.json")))
props = [json.loads(l)["id"] for l in open(os.path.join(VERIF, "properties.jsonl"))]
checks = []
na = []
for pid in props:
    e = table.get(pid)
    if e is None or e.get("not_applicable"):
        na.append({"property_id": pid, "reason": (e or {}).get("not_applicable", "check not built yet in this round (see DESIGN.md)")})
        continue
    checks.append({
        "property_id": pid,
        "quick_cmd": "python3-vt -m gsv check %s --tier quick" % pid,
        "thorough_cmd": "python3-vt -m gsv check %s --tier thorough" % pid,
        "evidence_file": "/verif/evidence/%s.json" % pid,
        "replay_cmd_template": "/venv/bin/python -m gsv replay {path}",
        "engine": "gsv",
        "level_claimed": {"category": "proof", "text": e["text"], "design_ref": e.get("design_ref", "DESIGN.md section 4 (" + pid + ")")},
        "level_note": e["note"],
        "technique": e["technique"],
    })
manifest = {
    "version": 1,
    "setup_cmd": "python3-vt -m gsv setup",
    "hooks": {
        "guard": "GRAPHSLAM_VERIF",
        "enable": "none needed: the machinery imports the unmodified sources from /repo and observes them from outside; the guard is declared and unused",
        "baseline_off_cmd": "cd /repo && /venv/bin/python -m pytest -ra -q -p no:cacheprovider --timeout=900 --continue-on-collection-errors",
        "source_commits": table.get("_hooks_source_commits", []),
        "add_only": True,
    },
    "engines": [{
        "name": "gsv",
        "path": "/verif/gsv",
        "serves_properties": [c["property_id"] for c in checks],
        "kind_free_text": "contract-based deductive verification: the real python-graphslam sources are executed on exact symbolic reals (numpy/scipy replaced by an algebraic shim), sidecar contracts give verification conditions, equalities are decided by polynomial normal forms modulo the manifold ideals with certificates re-checked by z3 and cvc5, inequalities by z3/cvc5; counterexamples are replayed on the real code with the real numpy",
    }],
    "checks": checks,
    "not_applicable": na,
    "notes": table.get("_notes", ""),
}
json.dump(manifest, open(os.path.join(VERIF, "MANIFEST.json"), "w"), indent=1)
print("MANIFEST.json: %d checks, %d not_applicable" % (len(checks), len(na)))
