"""Mutation campaign against the existing test-suite (design-round experiment, not part of the machinery)."""
import io, os, sys, json, random, shutil, subprocess, tokenize, time
from concurrent.futures import ThreadPoolExecutor
REPO="/repo"; ROOT="/tmp/mutcamp"
FILES={"graphslam/graph.py":70,"graphslam/edge/base_edge.py":40,"graphslam/edge/edge_odometry.py":35,"graphslam/edge/edge_landmark.py":40,
       "graphslam/util.py":15,"graphslam/vertex.py":25,"graphslam/g2o_parameters.py":15,"graphslam/pose/base_pose.py":6,
       "graphslam/pose/se2.py":50,"graphslam/pose/se3.py":90,"graphslam/pose/r2.py":12,"graphslam/pose/r3.py":6,"graphslam/load.py":2}
OPS={"+":["-"],"-":["+"],"*":["/"],"<=":["<",">="],"<":["<=",">"],">=":[">","<="],">":[">=","<"],"==":["!="],"!=":["=="],
     "and":["or"],"or":["and"],"+=":["=","-="],"/=":["*="],"**":["*"]}
NAMES={"sin":["cos"],"cos":["sin"],"True":["False"],"False":["True"],"transpose":["array"],"triu_indices":["tril_indices"],"tril_indices":["triu_indices"],
       "min":["max"],"max":["min"],"all":["any"],"any":["all"],"range":None,"inverse":None}
def sites(src):
    out=[]
    toks=list(tokenize.generate_tokens(io.StringIO(src).readline))
    lines=src.splitlines(keepends=True)
    offs=[0]
    for l in lines: offs.append(offs[-1]+len(l))
    def pos(rc): return offs[rc[0]-1]+rc[1]
    prev=None
    for i,t in enumerate(toks):
        a,b=pos(t.start),pos(t.end)
        if t.type==tokenize.OP and t.string in OPS:
            # skip unary minus/plus directly after ( [ , = or operator
            for r in OPS[t.string]: out.append((a,b,r,"op"))
        elif t.type==tokenize.NAME and t.string in NAMES and NAMES[t.string]:
            for r in NAMES[t.string]: out.append((a,b,r,"name"))
        elif t.type==tokenize.NAME and t.string=="not":
            out.append((a,b+1,"","not"))
        elif t.type==tokenize.NUMBER:
            s=t.string
            try: v=float(s)
            except ValueError: continue
            cands=[]
            if "." in s or "e" in s.lower():
                if v==2.0: cands=["2.0000001","4."]
                elif v==4.0: cands=["2.","4.0000001"]
                elif v==1.0: cands=["1.0000001","0."]
                elif v==0.0: cands=["1e-9"]
                else: cands=[repr(v*1.0000001), repr(v*10)]
            else:
                iv=int(s); cands=[str(iv+1)] + ([str(iv-1)] if iv>0 else [])
            for r in cands: out.append((a,b,r,"num"))
    return out
def make(seed=0):
    rnd=random.Random(seed); muts=[]
    for f,n in FILES.items():
        src=open(os.path.join(REPO,f)).read()
        ss=sites(src)
        # drop sites inside docstrings automatically (tokenize treats them as STRING) ; sample
        rnd.shuffle(ss)
        for (a,b,r,k) in ss[:n]:
            line=src.count("\n",0,a)+1
            muts.append({"file":f,"line":line,"old":src[a:b],"new":r,"kind":k,"a":a,"b":b,"ctx":src[max(0,a-30):b+30].replace("\n","\\n")})
    return muts
def run(i,m):
    d=os.path.join(ROOT,f"w{i}")
    shutil.rmtree(d,ignore_errors=True); os.makedirs(d)
    shutil.copytree(os.path.join(REPO,"graphslam"),os.path.join(d,"graphslam"))
    shutil.copytree(os.path.join(REPO,"tests"),os.path.join(d,"tests"))
    os.symlink(os.path.join(REPO,"data"),os.path.join(d,"data"))
    p=os.path.join(d,m["file"]); src=open(p).read()
    open(p,"w").write(src[:m["a"]]+m["new"]+src[m["b"]:])
    t=time.time()
    try:
        r=subprocess.run(["/venv/bin/python","-m","pytest","-q","-x","-p","no:cacheprovider","--timeout=300"],cwd=d,capture_output=True,text=True,timeout=600)
        tail=(r.stdout.strip().splitlines() or [""])[-1]; rc=r.returncode
    except subprocess.TimeoutExpired:
        tail="TIMEOUT"; rc=-9
    shutil.rmtree(d,ignore_errors=True)
    m=dict(m); m.update(rc=rc,tail=tail,secs=round(time.time()-t,1)); return m
if __name__=="__main__":
    muts=make(int(sys.argv[1]) if len(sys.argv)>1 else 0)
    print(len(muts),"mutants",flush=True)
    res=[]
    with ThreadPoolExecutor(14) as ex:
        for k,m in enumerate(ex.map(lambda im: run(*im), enumerate(muts))):
            res.append(m)
            if m["rc"]==0: print("SURVIVED",m["file"],m["line"],repr(m["old"]),"->",repr(m["new"]),"|",m["ctx"][:90],flush=True)
    json.dump(res,open(os.path.join(ROOT,"results.json"),"w"),indent=1)
    print("survivors",sum(1 for m in res if m["rc"]==0),"of",len(res))
