import numpy as np, warnings
from graphslam.pose.r2 import PoseR2
from graphslam.pose.r3 import PoseR3
from graphslam.pose.se2 import PoseSE2
from graphslam.pose.se3 import PoseSE3
from graphslam.vertex import Vertex
from graphslam.edge.edge_odometry import EdgeOdometry
from graphslam.edge.edge_landmark import EdgeLandmark
from graphslam.graph import Graph
rng = np.random.default_rng(1)
def rq():
    q = rng.normal(size=4); q/=np.linalg.norm(q); return q
def rse3(scale=5): return PoseSE3(rng.normal(size=3)*scale, rq())
def spd(n):
    A = rng.normal(size=(n,n)); return A@A.T + n*np.eye(n)

# C08 quaternion sign
z = rse3(); p1=rse3(); p2=rse3(); Om = spd(6)
e = EdgeOdometry([0,1], Om, z, [Vertex(0,p1), Vertex(1,p2)])
c0 = e.calc_chi2()
zneg = PoseSE3(z[:3], -z[3:])
e2 = EdgeOdometry([0,1], Om, zneg, [Vertex(0,p1), Vertex(1,p2)])
print("C08 sign flip of measurement: chi2", c0, e2.calc_chi2())
p1n = PoseSE3(p1[:3], -p1[3:])
e3 = EdgeOdometry([0,1], Om, z, [Vertex(0,p1n), Vertex(1,p2)])
print("C08 sign flip of vertex: chi2", c0, e3.calc_chi2())
Omd = np.zeros((6,6)); Omd[:3,:3]=spd(3); Omd[3:,3:]=spd(3)
print("blockdiag:", EdgeOdometry([0,1], Omd, z, [Vertex(0,p1), Vertex(1,p2)]).calc_chi2(), EdgeOdometry([0,1], Omd, zneg, [Vertex(0,p1), Vertex(1,p2)]).calc_chi2())

# C06 fixed vertex w/ singular
vs = [Vertex(0, PoseR2([0.,0.])), Vertex(1, PoseR2([1.,0.])), Vertex(2, PoseR2([5.,5.]), fixed=True)]
es = [EdgeOdometry([0,1], np.eye(2), PoseR2([1.,1.]))]
g = Graph(es, vs)
with warnings.catch_warnings():
    warnings.simplefilter("ignore")
    r = g.optimize(verbose=False)
print("C06 fixed isolated:", [v.pose for v in vs], r.converged, r.final_chi2)

# isolated fixed vertex, fix_first_pose false, two connected with one fixed
vs = [Vertex(0, PoseR2([0.,0.]), fixed=True), Vertex(1, PoseR2([1.,0.])), Vertex(2, PoseR2([5.,5.]), fixed=True)]
es = [EdgeOdometry([0,1], np.eye(2), PoseR2([1.,1.]))]
g = Graph(es, vs)
with warnings.catch_warnings():
    warnings.simplefilter("ignore")
    r = g.optimize(verbose=False, fix_first_pose=False)
print("C06 fixed isolated (otherwise well-posed):", [v.pose for v in vs], r.converged, r.final_chi2)
