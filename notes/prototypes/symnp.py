"""Prototype numpy shim over exact polynomial scalars (feasibility experiment only)."""
import itertools, math as _math
from fractions import Fraction
import sympy
from sympy.polys.rings import PolyElement

class _Ctx: ring=None
CTX=_Ctx()
def lift(x):
    if isinstance(x, PolyElement): return x
    if isinstance(x, (int, Fraction)): return CTX.ring(x)
    if isinstance(x, float):
        return CTX.ring(sympy.Rational(Fraction(x).numerator, Fraction(x).denominator))
    raise TypeError(type(x))

pi = 3.141592653589793
float64 = float

class ndarray:
    def __new__(cls, data=None, shape=None):
        o=object.__new__(cls)
        if data is not None: o.data=list(data); o.shape=tuple(shape)
        return o
    # numpy-like construction
    def view(self, cls):
        o = object.__new__(cls)
        o.data=self.data; o.shape=self.shape
        return o
    @property
    def ndim(self): return len(self.shape)
    def __len__(self): return self.shape[0]
    def __iter__(self):
        for i in range(self.shape[0]): yield self[i]
    def _idx(self, key):
        if not isinstance(key, tuple): key=(key,)
        return key
    def __getitem__(self, key):
        key=self._idx(key)
        if len(key)==2 and isinstance(key[0], (list, ndarray)):  # fancy pair
            r,c=key; return ndarray([self.data[int(i)*self.shape[1]+int(j)] for i,j in zip(r,c)], (len(list(r)),))
        if self.ndim==1:
            k=key[0]
            if isinstance(k, slice):
                d=self.data[k]; return ndarray(d,(len(d),))
            return self.data[k]
        if self.ndim==2:
            rows=range(self.shape[0]); cols=range(self.shape[1])
            k0=key[0]; k1=key[1] if len(key)>1 else slice(None)
            rs = rows[k0] if isinstance(k0, slice) else [rows[k0]]
            cs = cols[k1] if isinstance(k1, slice) else [cols[k1]]
            d=[self.data[i*self.shape[1]+j] for i in rs for j in cs]
            if not isinstance(k0, slice) and not isinstance(k1, slice): return d[0]
            if not isinstance(k0, slice): return ndarray(d,(len(cs),))
            if not isinstance(k1, slice): return ndarray(d,(len(rs),))
            return ndarray(d,(len(rs),len(cs)))
        raise NotImplementedError
    def __setitem__(self, key, val):
        key=self._idx(key)
        if len(key)==2 and isinstance(key[0], (list, ndarray)):
            r,c=key; vals=list(val.data) if isinstance(val, ndarray) else [val]*len(list(r))
            for (i,j),v in zip(zip(r,c),vals): self.data[int(i)*self.shape[1]+int(j)]=lift(v)
            return
        if self.ndim==1:
            k=key[0]
            if isinstance(k, slice):
                idx=range(self.shape[0])[k]; vals=list(val.data) if isinstance(val, ndarray) else [val]*len(idx)
                assert len(vals)==len(idx)
                for i,v in zip(idx,vals): self.data[i]=lift(v)
            else: self.data[k]=lift(val)
            return
        rows=range(self.shape[0]); cols=range(self.shape[1])
        k0=key[0]; k1=key[1] if len(key)>1 else slice(None)
        rs = rows[k0] if isinstance(k0, slice) else [rows[k0]]
        cs = cols[k1] if isinstance(k1, slice) else [cols[k1]]
        vals=list(val.data) if isinstance(val, ndarray) else [val]*(len(rs)*len(cs))
        assert len(vals)==len(rs)*len(cs)
        for (i,j),v in zip(itertools.product(rs,cs),vals): self.data[i*self.shape[1]+j]=lift(v)
    def _bin(self, other, f):
        if isinstance(other, ndarray):
            assert self.shape==other.shape, (self.shape, other.shape)
            return ndarray([f(a,b) for a,b in zip(self.data, other.data)], self.shape)
        o=lift(other); return ndarray([f(a,o) for a in self.data], self.shape)
    def __add__(self,o): return self._bin(o, lambda a,b:a+b)
    def __radd__(self,o): return self._bin(o, lambda a,b:b+a)
    def __sub__(self,o): return self._bin(o, lambda a,b:a-b)
    def __rsub__(self,o): return self._bin(o, lambda a,b:b-a)
    def __mul__(self,o): return self._bin(o, lambda a,b:a*b)
    def __rmul__(self,o): return self._bin(o, lambda a,b:b*a)
    def __neg__(self): return ndarray([-a for a in self.data], self.shape)
    @property
    def T(self): return transpose(self)

def array(obj, dtype=None):
    if isinstance(obj, ndarray): return ndarray(obj.data, obj.shape)
    obj=list(obj)
    if obj and isinstance(obj[0], (list, tuple, ndarray)):
        rows=[list(r.data) if isinstance(r, ndarray) else list(r) for r in obj]
        return ndarray([lift(x) for r in rows for x in r], (len(rows), len(rows[0])))
    return ndarray([lift(x) for x in obj], (len(obj),))
asarray=array
def add(a,b): return ndarray(a.data,a.shape)+b
def subtract(a,b): return ndarray(a.data,a.shape)-b
def eye(n,m=None):
    m=m or n; return ndarray([lift(1 if i==j else 0) for i in range(n) for j in range(m)],(n,m))
def zeros(shape, dtype=None):
    if isinstance(shape,int): shape=(shape,)
    return ndarray([lift(0)]*_math.prod(shape), shape)
def transpose(a):
    if a.ndim==1: return ndarray(a.data,a.shape)
    n,m=a.shape; return ndarray([a.data[i*m+j] for j in range(m) for i in range(n)],(m,n))
def dot(a,b):
    if a.ndim==1 and b.ndim==1: return sum((x*y for x,y in zip(a.data,b.data)), lift(0))
    if a.ndim==1 and b.ndim==2:
        n,m=b.shape; assert a.shape[0]==n
        return ndarray([sum((a.data[i]*b.data[i*m+j] for i in range(n)), lift(0)) for j in range(m)],(m,))
    if a.ndim==2 and b.ndim==1:
        n,m=a.shape; assert b.shape[0]==m
        return ndarray([sum((a.data[i*m+j]*b.data[j] for j in range(m)), lift(0)) for i in range(n)],(n,))
    n,m=a.shape; m2,p=b.shape; assert m==m2,(a.shape,b.shape)
    return ndarray([sum((a.data[i*m+k]*b.data[k*p+j] for k in range(m)), lift(0)) for i in range(n) for j in range(p)],(n,p))
TRIG={}
def cos(x): return TRIG[('c',x)]
def sin(x): return TRIG[('s',x)]
