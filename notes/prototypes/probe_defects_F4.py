import numpy as np, warnings, io, os, tempfile, logging
from graphslam.pose.r2 import PoseR2
from graphslam.pose.r3 import PoseR3
from graphslam.pose.se2 import PoseSE2
from graphslam.pose.se3 import PoseSE3
from graphslam.vertex import Vertex
from graphslam.edge.edge_odometry import EdgeOdometry
from graphslam.edge.edge_landmark import EdgeLandmark
from graphslam.graph import Graph
from graphslam.g2o_parameters import *
rng = np.random.default_rng(3)
def rq():
    q = rng.normal(size=4); q/=np.linalg.norm(q); return q
def rse3(scale=5): return PoseSE3(rng.normal(size=3)*scale, rq())
def rse2(scale=5): return PoseSE2(rng.normal(size=2)*scale, rng.uniform(-3,3))
def spd(n):
    A = rng.normal(size=(n,n)); return A@A.T + n*np.eye(n)
def dump(g):
    p = tempfile.mktemp(suffix=".g2o"); g.to_g2o(p); s=open(p).read(); return p, s

# C13: SE2 graph w/ landmark offset non-identity
vs = [Vertex(0, rse2()), Vertex(1, rse2()), Vertex(-5, PoseR2(rng.normal(size=2)))]
off = PoseSE2([0.3,-0.2], 0.7)
es = [EdgeOdometry([0,1], spd(3), rse2()), EdgeLandmark([1,-5], spd(2), PoseR2(rng.normal(size=2)), off, offset_id=3)]
g = Graph(es, vs)
p, s = dump(g); print(s)
g2 = Graph.from_g2o(p)
print("SE2 landmark offset roundtrip chi2:", g.calc_chi2(), g2.calc_chi2(), "offset after:", g2._edges[1].offset, g2._edges[1].offset_id, g2._g2o_params)

# SE3 graph w/ landmark + offset param
vs = [Vertex(0, rse3()), Vertex(1, rse3()), Vertex(7, PoseR3(rng.normal(size=3)))]
offp = rse3()
es = [EdgeOdometry([0,1], spd(6), rse3()), EdgeLandmark([1,7], spd(3), PoseR3(rng.normal(size=3)), offp, offset_id=2)]
g = Graph(es, vs)
p, s = dump(g); print(s)
try:
    g2 = Graph.from_g2o(p)
    print("SE3 roundtrip:", g.calc_chi2(), g2.calc_chi2())
except Exception as ex:
    print("SE3 landmark roundtrip raised", repr(ex))
g._g2o_params = {("PARAMS_SE3OFFSET",2): G2OParameterSE3Offset(("PARAMS_SE3OFFSET",2), offp)}
p, s = dump(g); print(s)
g2 = Graph.from_g2o(p)
print("SE3 roundtrip w/ params:", g.calc_chi2(), g2.calc_chi2())
for v1, v2 in zip(g._vertices, g2._vertices): print(v1.pose - v2.pose if False else np.abs(np.array(v1.pose)-np.array(v2.pose)).max())
for e1, e2 in zip(g._edges, g2._edges): print(np.abs(np.array(e1.estimate)-np.array(e2.estimate)).max(), np.abs(e1.information-e2.information).max())
# w<0 measurement
z = rse3(); 
if z[6]>0: z = PoseSE3(z[:3], -z[3:])
es = [EdgeOdometry([0,1], spd(6), z)]
g = Graph(es, [Vertex(0, rse3()), Vertex(1, rse3())])
p, s = dump(g); g2 = Graph.from_g2o(p)
print("w<0 measurement:", g.calc_chi2(), g2.calc_chi2(), z, g2._edges[0].estimate)
# R2 odometry to_g2o
g = Graph([EdgeOdometry([0,1], np.eye(2), PoseR2([1,2]))], [Vertex(0,PoseR2([0,0])), Vertex(1,PoseR2([1,1]))])
try: p, s = dump(g); print(s)
except Exception as ex: print("R2 odometry to_g2o raised", repr(ex))
# non-symmetric information
# landmark edge from R2 to R2
g = Graph([EdgeLandmark([0,1], np.eye(2), PoseR2([1,2]), PoseR2([0.5,0.5]))], [Vertex(0,PoseR2([0,0])), Vertex(1,PoseR2([1,1]))])
try: p, s = dump(g); print(s)
except Exception as ex: print("R2 landmark to_g2o raised", repr(ex))
# SE3 landmark with offset_id None
g = Graph([EdgeLandmark([0,1], np.eye(3), PoseR3([1,2,3]), PoseSE3.identity())], [Vertex(0,rse3()), Vertex(1,PoseR3([1,1,1]))])
try: p, s = dump(g); print(s)
except Exception as ex: print("raised", repr(ex))
