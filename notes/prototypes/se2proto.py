import sys, os, time
sys.path.insert(0, os.path.dirname(os.path.abspath(__file__)))
import symnp
from sympy.polys.rings import ring, PolyElement
from sympy import QQ
sys.modules['numpy']=symnp
sys.path.insert(0,'/repo')
ang = ['ta','tb','tz','to']                       # base angles
names = ['a0','a1','b0','b1','z0','z1','o0','o1','l0','l1','m0','m1','d0','d1','d2'] + ang + ['c'+t for t in ang] + ['s'+t for t in ang]
R,*gens = ring(names, QQ); symnp.CTX.ring=R; G=dict(zip(names,gens)); IDX={n:i for i,n in enumerate(names)}
# d2 is an angle increment too: treat as base angle with its own atoms
ang_all = ang+['d2']
names2 = None
def trig(p, which):
    """cos/sin of an integer-linear form in base angles (constant term must be 0 here)"""
    terms = list(p.terms())
    lin=[]
    for mon,cf in terms:
        nz=[i for i,e in enumerate(mon) if e]
        assert len(nz)==1 and mon[nz[0]]==1 and names[nz[0]] in ang_all and cf.denominator==1, ("unsupported angle", p)
        lin.append((names[nz[0]], int(cf)))
    # expand cos(sum) recursively
    def cs(name):
        if name=='d2': return (DC, DS)
        return (G['c'+name], G['s'+name])
    c, s = R(1), R(0)
    for name,k in lin:
        ck, sk = cs(name)
        for _ in range(abs(k)):
            sk_ = sk if k>0 else -sk
            c, s = c*ck - s*sk_, s*ck + c*sk_
    return c if which=='c' else s
symnp.cos=lambda x: trig(x,'c'); symnp.sin=lambda x: trig(x,'s')
# first-order atoms for the increment angle d2: cos(d2) ~ 1, sin(d2) ~ d2  (enough for derivative at 0; real engine uses D-rules)
DC, DS = R(1), G['d2']
import graphslam.util as util
util.neg_pi_to_pi = lambda a: a          # prototype: wrap = identity modulo 2*pi*k (k ghost, constant)
import graphslam.pose.se2 as se2, graphslam.pose.r2 as r2, graphslam.vertex as vertex
se2.neg_pi_to_pi = util.neg_pi_to_pi
import graphslam.edge.edge_odometry as eo, graphslam.edge.edge_landmark as el
def pose(p): return se2.PoseSE2([G[p+'0'],G[p+'1']], G['t'+p])
A,B,Z,O = pose('a'),pose('b'),pose('z'),pose('o')
def nf(p):
    # c^2 -> 1 - s^2 for each base angle
    changed=True
    while changed:
        changed=False
        for t in ang:
            ci=IDX['c'+t]; rep=1-G['s'+t]**2
            new=R(0); hit=False
            for mon,cf in p.terms():
                e=mon[ci]
                if e>=2:
                    m2=list(mon); m2[ci]=e%2; new+=R({tuple(m2):cf})*rep**(e//2); hit=True
                else: new+=R({mon:cf})
            if hit: p=new; changed=True
    return p
D = symnp.ndarray([G['d0'],G['d1'],G['d2']],(3,))
dz = {IDX['d0'],IDX['d1'],IDX['d2']}
def check(edge_cls, mkedge, verts, dims):
    e = mkedge(verts); J = e.calc_jacobians(); bad=0; tot=0
    for k,v in enumerate(verts):
        d = dims[k]
        inc = symnp.ndarray([G[f'd{i}'] for i in range(d)],(d,))
        vs2 = list(verts); vs2[k] = vertex.Vertex(v.id, v.pose + inc)
        err = mkedge(vs2).calc_error()
        for r in range(len(err.data)):
            for c in range(d):
                de = err.data[r].diff(G[f'd{c}']); de0 = R({m:cf for m,cf in de.terms() if all(m[i]==0 for i in dz)})
                tot+=1
                if nf(de0 - J[k].data[r*d+c]) != 0: bad+=1; print("MISMATCH", k,r,c, nf(de0 - J[k].data[r*d+c]))
    return bad, tot
t=time.time()
print("odometry SE2:", check(eo.EdgeOdometry, lambda vs: eo.EdgeOdometry([0,1], symnp.eye(3), Z, vs), [vertex.Vertex(0,A), vertex.Vertex(1,B)], [3,3]), time.time()-t)
L = r2.PoseR2([G['l0'],G['l1']]); M = r2.PoseR2([G['m0'],G['m1']])
t=time.time()
print("landmark SE2->R2 (rotated offset):", check(el.EdgeLandmark, lambda vs: el.EdgeLandmark([0,1], symnp.eye(2), M, O, 0, vs), [vertex.Vertex(0,A), vertex.Vertex(1,L)], [3,2]), time.time()-t)
