"""Design-round prototype: C10 (ambient form + compact rows + shapes) and C09 group laws for all four pose types, exact algebra."""
import sys, os, time
sys.path.insert(0, os.path.dirname(os.path.abspath(__file__)))
import symnp
from sympy.polys.rings import ring, PolyElement
from sympy import QQ
sys.modules['numpy']=symnp
sys.path.insert(0, sys.argv[1] if len(sys.argv)>1 else '/repo')
ANG=['ta','tb','tc']
names=[f'{p}{i}' for p in 'abcp' for i in range(7)] + ANG + ['c'+a for a in ANG] + ['s'+a for a in ANG]
R,*gens=ring(names,QQ); symnp.CTX.ring=R; G=dict(zip(names,gens)); IDX={n:i for i,n in enumerate(names)}
def trig(p, which):
    c, s_ = R(1), R(0)
    for mon,cf in p.terms():
        nz=[i for i,e in enumerate(mon) if e]; n=names[nz[0]]; k=int(cf)
        ck, sk = G['c'+n], G['s'+n]
        for _ in range(abs(k)):
            sk_ = sk if k>0 else -sk
            c, s_ = c*ck - s_*sk_, s_*ck + c*sk_
    return c if which=='c' else s_
symnp.cos=lambda x: trig(x,'c'); symnp.sin=lambda x: trig(x,'s')
import graphslam.util as util
util.neg_pi_to_pi=lambda a:a
import graphslam.pose.se2 as se2, graphslam.pose.r2 as r2, graphslam.pose.r3 as r3, graphslam.pose.se3 as se3
se2.neg_pi_to_pi=util.neg_pi_to_pi
def nf(p):
    # c^2 -> 1-s^2 ; qw^2 -> 1 - ...
    rules=[(IDX['c'+t], 1-G['s'+t]**2) for t in ANG]+[(IDX[q+'6'], 1-G[q+'3']**2-G[q+'4']**2-G[q+'5']**2) for q in 'abc']
    changed=True
    while changed:
        changed=False
        for vi,rep in rules:
            new=R(0); hit=False
            for mon,cf in p.terms():
                e=mon[vi]
                if e>=2:
                    m2=list(mon); m2[vi]=e%2; new+=R({tuple(m2):cf})*rep**(e//2); hit=True
                else: new+=R({mon:cf})
            if hit: p=new; changed=True
    return p
def D(p, var):
    """total derivative wrt a raw component; angles carry their cos/sin atoms"""
    n=str(var)
    d=p.diff(var)
    if n in ANG: d = d - G['s'+n]*p.diff(G['c'+n]) + G['c'+n]*p.diff(G['s'+n])
    return d
def mk(T, pre):
    if T=='R2': return r2.PoseR2([G[pre+'0'],G[pre+'1']]), [G[pre+'0'],G[pre+'1']]
    if T=='R3': return r3.PoseR3([G[pre+'0'],G[pre+'1'],G[pre+'2']]), [G[pre+i] for i in '012']
    if T=='SE2': return se2.PoseSE2([G[pre+'0'],G[pre+'1']],G['t'+pre]), [G[pre+'0'],G[pre+'1'],G['t'+pre]]
    return se3.PoseSE3([G[pre+i] for i in '012'],[G[pre+i] for i in '3456']), [G[pre+str(i)] for i in range(7)]
PT={'R2':'R2','R3':'R3','SE2':'R2','SE3':'R3'}
def check(J, f, xs, shape, label, mod=False):
    out=f(); vals=list(out.data)
    assert J.shape==shape, (label, J.shape, shape)
    bad=0
    for i,v in enumerate(vals):
        for j,x in enumerate(xs):
            d=D(v,x)-J.data[i*len(xs)+j]
            if (nf(d) if mod else d)!=0: bad+=1
    return bad
tot=0; t0=time.time()
for T in ['R2','R3','SE2','SE3']:
    a,xa=mk(T,'a'); b,xb=mk(T,'b'); p,xp=mk(PT[T],'p'); n=len(xa); c=a.COMPACT_DIMENSIONALITY; dp=len(xp); bad=0
    for name,op in [('oplus',lambda x,y:x+y),('ominus',lambda x,y:x-y)]:
        bad+=check(getattr(a,f'jacobian_self_{name}_other_wrt_self')(b), lambda: op(a,b).to_array(), xa, (n,n), name)
        bad+=check(getattr(a,f'jacobian_self_{name}_other_wrt_other')(b), lambda: op(a,b).to_array(), xb, (n,n), name)
        bad+=check(getattr(a,f'jacobian_self_{name}_other_wrt_self_compact')(b), lambda: op(a,b).to_compact(), xa, (c,n), name)
        bad+=check(getattr(a,f'jacobian_self_{name}_other_wrt_other_compact')(b), lambda: op(a,b).to_compact(), xb, (c,n), name)
    bad+=check(a.jacobian_inverse(), lambda: a.inverse.to_array(), xa, (n,n), 'inv')
    bad+=check(a.jacobian_self_oplus_point_wrt_self(p), lambda: (a+p).to_array(), xa, (dp,n), 'pt_self')
    bad+=check(a.jacobian_self_oplus_point_wrt_point(p), lambda: (a+p).to_array(), xp, (dp,dp), 'pt_pt')
    # boxplus at 0 (first order: sqrt(1-|d|^2) ~ 1): use pose (+) Pose(delta) with w=1 for SE3
    dn=['p3','p4','p5','p6','c0','c1'][:c]   # spare generators as increments
    dv=[G[x] for x in dn]
    if T=='SE3': inc=se3.PoseSE3(dv[:3], dv[3:]+[R(1)]); res=(a+inc).to_array()
    elif T=='SE2':
        # increment angle dv[2]: cos~1, sin~dv[2] to first order
        th=G['ta']; ca,sa=G['cta'],G['sta']
        res=symnp.array([a[0]+dv[0]*ca-dv[1]*sa, a[1]+dv[0]*sa+dv[1]*ca, th+dv[2]])
    else: res=(a+symnp.array(dv)).to_array()
    J=a.jacobian_boxplus(); assert J.shape==(n,c)
    for i,v in enumerate(res.data):
        for j,x in enumerate(dv):
            d=v.diff(x); d0=R({m:cf for m,cf in d.terms() if all(m[IDX[q]]==0 for q in dn)})
            if nf(d0-J.data[i*c+j])!=0: bad+=1
    print(f"C10 {T}: 12 methods, mismatching entries: {bad}   ({time.time()-t0:.1f}s)"); tot+=bad
# C09 group laws for SE2 / SE3 (mod ideal)
for T in ['SE2','SE3']:
    a,_=mk(T,'a'); b,_=mk(T,'b'); cc,_=mk(T,'c'); p,_=mk(PT[T],'p'); bad=0
    def eqm(M1,M2): return sum(1 for x,y in zip(M1.data,M2.data) if nf(x-y)!=0)
    bad+=eqm((a+b).to_matrix(), symnp.dot(a.to_matrix(),b.to_matrix()))
    bad+=eqm((a-b).to_matrix(), (b.inverse+a).to_matrix())
    bad+=eqm(((a+b)+cc).to_matrix(), (a+(b+cc)).to_matrix())
    I=(a+a.inverse).to_matrix(); n=I.shape[0]; bad+=eqm(I, symnp.eye(n)); bad+=eqm((a.inverse+a).to_matrix(), symnp.eye(n))
    hp=symnp.dot(a.to_matrix(), symnp.array(list(p.data)+[R(1)])); bad+=sum(1 for x,y in zip(list((a+p).data)+[R(1)], hp.data) if nf(x-y)!=0)
    if T=='SE3':
        bad+=sum(1 for x,y in zip((a-b).data,(b.inverse+a).data) if nf(x-y)!=0)
        bad+=sum(1 for x,y in zip(((a+b)+cc).data,(a+(b+cc)).data) if nf(x-y)!=0)
        q=(a+b); bad+= (nf(sum((q.data[i]**2 for i in range(3,7)),R(0))-1)!=0)
    print(f"C09 {T}: group-law mismatches: {bad}   ({time.time()-t0:.1f}s)"); tot+=bad
print("TOTAL mismatches", tot)
