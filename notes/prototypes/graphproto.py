import sys, os, time, types
sys.path.insert(0, os.path.dirname(os.path.abspath(__file__)))
import symnp
from sympy.polys.rings import ring, PolyElement
from sympy import QQ
from fractions import Fraction
# ---- scipy shims
GHOST = {}
class lil_matrix(symnp.ndarray):
    def __new__(cls, shape, dtype=None):
        o = symnp.zeros(shape).view(cls); return o
def spsolve(A, b):
    n = b.shape[0]
    dx = symnp.ndarray([G[f'dx{i}'] for i in range(n)], (n,))
    GHOST['A']=A; GHOST['b']=b; GHOST['dx']=dx
    return dx
sp = types.ModuleType('scipy'); sps = types.ModuleType('scipy.sparse'); spl = types.ModuleType('scipy.sparse.linalg')
class SparseEfficiencyWarning(Warning): pass
sps.lil_matrix=lil_matrix; sps.SparseEfficiencyWarning=SparseEfficiencyWarning; spl.spsolve=spsolve; sps.linalg=spl; sp.sparse=sps
sys.modules.update({'scipy':sp,'scipy.sparse':sps,'scipy.sparse.linalg':spl,'numpy':symnp})
class _FI: eps = Fraction(1, 2**52)
symnp.finfo = lambda t: _FI
sys.path.insert(0,'/repo')
NV = 12
names = [f'x{i}' for i in range(40)] + [f'w{i}' for i in range(40)] + [f'dx{i}' for i in range(NV)] + ['ta','tb','cta','ctb','sta','stb'] + [f'cdx{i}' for i in range(NV)] + [f'sdx{i}' for i in range(NV)]
R,*gens = ring(names, QQ); symnp.CTX.ring=R; G=dict(zip(names,gens))
def trig(p, which):
    c, s_ = R(1), R(0)
    for mon,cf in p.terms():
        nz=[i for i,e in enumerate(mon) if e]; n=names[nz[0]]; k=int(cf)
        ck, sk = G['c'+n], G['s'+n]
        for _ in range(abs(k)):
            sk_ = sk if k>0 else -sk
            c, s_ = c*ck - s_*sk_, s_*ck + c*sk_
    return c if which=='c' else s_
symnp.cos=lambda x: trig(x,'c'); symnp.sin=lambda x: trig(x,'s')
import graphslam.util as util
util.neg_pi_to_pi = lambda a: a
import graphslam.pose.se2 as se2, graphslam.pose.r2 as r2, graphslam.vertex as vertex
se2.neg_pi_to_pi = util.neg_pi_to_pi
import graphslam.edge.edge_odometry as eo, graphslam.edge.edge_landmark as el
# make PolyElement division by poly produce a placeholder (prototype): only used for rel_diff
import graphslam.graph as graph
it = iter(gens)
def nx(): return next(it)
def symm(n, pre):
    M=[[None]*n for _ in range(n)]
    for i in range(n):
        for j in range(i,n): M[i][j]=M[j][i]=nx()
    return symnp.array(M)
# Mixed graph: v0 SE2 (id 10), v1 R2 (id 3), v2 SE2 (id -1, fixed); edges: odometry [ -1, 10 ] (reverse list order), landmark [10,3], landmark [-1,3], parallel odometry [10,-1]
A = se2.PoseSE2([nx(),nx()], G['ta']); Bp = se2.PoseSE2([nx(),nx()], G['tb']); L = r2.PoseR2([nx(),nx()])
vs = [vertex.Vertex(10,A), vertex.Vertex(3,L), vertex.Vertex(-1,Bp,fixed=True)]
def zse2():
    # measurement with its own angle: reuse ta for brevity (independent symbol not needed for structure test)
    return se2.PoseSE2([nx(),nx()], G['ta'])
es = [eo.EdgeOdometry([-1,10], symm(3,'o'), zse2()), el.EdgeLandmark([10,3], symm(2,'l'), r2.PoseR2([nx(),nx()]), se2.PoseSE2.identity(), 0),
      el.EdgeLandmark([-1,3], symm(2,'l'), r2.PoseR2([nx(),nx()]), se2.PoseSE2.identity(), 0), eo.EdgeOdometry([10,-1], symm(3,'o'), zse2())]
t=time.time()
g = graph.Graph(es, vs)
print("gradient_index:", [v.gradient_index for v in vs], "len", g._len_gradient)
# one iteration; avoid symbolic division in rel_diff: patch PolyElement truediv fallback
_orig = PolyElement.__truediv__
def _td(self, other):
    try: return _orig(self, other)
    except Exception: return R(0)
PolyElement.__truediv__ = _td
ret = g.optimize(max_iter=1, fix_first_pose=False, verbose=False)
print("optimize under shim ok:", time.time()-t, "s; fixed idx", g._fixed_gradient_indices)
H=GHOST['A']; b=GHOST['b']
print("H shape", H.shape, "nonzero pattern:")
for i in range(H.shape[0]): print("".join('#' if H.data[i*H.shape[1]+j]!=0 else '.' for j in range(H.shape[1])))
print("rhs zero at fixed:", [b.data[i]==0 for i in range(5,8)], "H fixed block identity:", [[H.data[i*8+j] for j in range(5,8)] for i in range(5,8)])
print("symmetric:", all(H.data[i*8+j]==H.data[j*8+i] for i in range(8) for j in range(8)))
print("v0 new pose x:", str(vs[0].pose.data[0])[:80])
print("fixed pose unchanged:", all(a==b_ for a,b_ in zip(vs[2].pose.data, Bp.data)), [str(x) for x in vs[2].pose.data])
