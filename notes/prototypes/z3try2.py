import sys, time
exec(open('run_proto.py').read().split("t=time.time()\ne = eo.EdgeOdometry")[0])
import z3
zv = {n: z3.Real(n) for n in names}
def to_z3(p):
    terms=[]
    for mon, cf in p.terms():
        t = z3.RealVal(str(cf))
        for i,e_ in enumerate(mon):
            for _ in range(e_): t = t*zv[names[i]]
        terms.append(t)
    return z3.Sum(terms) if terms else z3.RealVal(0)
hyps = [zv[q+'3']**2+zv[q+'4']**2+zv[q+'5']**2+zv[q+'6']**2==1 for q in 'abzo']
def check(label, lhs, rhs, timeout=60000):
    d = lhs-rhs
    print(label, "raw diff terms", len(d), "nf zero:", nf(d)==0)
    if len(d)==0: return
    for tactic in ["default","qfnra-nlsat"]:
        s = z3.Solver() if tactic=="default" else z3.Tactic(tactic).solver()
        s.set("timeout", timeout)
        s.add(*hyps); s.add(to_z3(d) != 0)
        t=time.time(); res=s.check(); print("   z3", tactic, res, round(time.time()-t,2))
# C09: a - b == b.inverse + a
l = A - B; r_ = B.inverse + A
for i in [0,3,6]: check(f"ominus vs inv-oplus [{i}]", l.data[i], r_.data[i])
# associativity
l = (A+B)+Z; r_ = A+(B+Z)
for i in [0,3]: check(f"assoc [{i}]", l.data[i], r_.data[i])
# matrix hom
MA, MB, MAB = A.to_matrix(), B.to_matrix(), (A+B).to_matrix()
P = symnp.dot(MA, MB)
for (i,j) in [(0,0),(0,3),(1,2)]: check(f"hom [{i},{j}]", MAB.data[i*4+j], P.data[i*4+j])
# inverse two sided
I1 = A + A.inverse
for i in [0,3,6]: check(f"a+a^-1 [{i}]", I1.data[i], R(1) if i==6 else R(0))
# unit norm preserved
q = (A+B); n2 = sum((q.data[i]**2 for i in range(3,7)), R(0))
check("unit preserved", n2, R(1))
