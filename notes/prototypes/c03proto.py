"""Design-round prototype of the C03/C06 decider: the linear system the real optimize hands to the solver is
equivalent (same solution set) to the spec reduced Gauss-Newton system.  argv[1] = repo root."""
import sys, os, time, types, random
from fractions import Fraction
sys.path.insert(0, os.path.dirname(os.path.abspath(__file__)))
import symnp
from sympy.polys.rings import ring, PolyElement
from sympy import QQ, Matrix, Rational
GHOST = {}
class lil_matrix(symnp.ndarray):
    def __new__(cls, shape, dtype=None): return symnp.zeros(shape).view(cls)
def spsolve(A, b):
    n = b.shape[0]; dx = symnp.ndarray([G[f'dx{i}'] for i in range(n)], (n,)); GHOST.update(A=A, b=b, dx=dx); return dx
sp = types.ModuleType('scipy'); sps = types.ModuleType('scipy.sparse'); spl = types.ModuleType('scipy.sparse.linalg')
class SparseEfficiencyWarning(Warning): pass
sps.lil_matrix=lil_matrix; sps.SparseEfficiencyWarning=SparseEfficiencyWarning; spl.spsolve=spsolve; sps.linalg=spl; sp.sparse=sps
sys.modules.update({'scipy':sp,'scipy.sparse':sps,'scipy.sparse.linalg':spl,'numpy':symnp})
class _FI: eps = Fraction(1, 2**52)
symnp.finfo = lambda t: _FI
REPO = sys.argv[1] if len(sys.argv) > 1 else '/repo'
sys.path.insert(0, REPO)
NV = 8
ANG = ['ta','tb','tz1','tz2','tz3','to']
names = [f'x{i}' for i in range(60)] + [f'dx{i}' for i in range(NV)] + ANG + ['c'+a for a in ANG] + ['s'+a for a in ANG] + [f'cdx{i}' for i in range(NV)] + [f'sdx{i}' for i in range(NV)]
R,*gens = ring(names, QQ); symnp.CTX.ring=R; G=dict(zip(names,gens)); IDX={n:i for i,n in enumerate(names)}
def trig(p, which):
    c, s_ = R(1), R(0)
    for mon,cf in p.terms():
        nz=[i for i,e in enumerate(mon) if e]; n=names[nz[0]]; k=int(cf)
        ck, sk = G['c'+n], G['s'+n]
        for _ in range(abs(k)):
            sk_ = sk if k>0 else -sk
            c, s_ = c*ck - s_*sk_, s_*ck + c*sk_
    return c if which=='c' else s_
symnp.cos=lambda x: trig(x,'c'); symnp.sin=lambda x: trig(x,'s')
import graphslam.util as util
util.neg_pi_to_pi = lambda a: a
import graphslam.pose.se2 as se2, graphslam.pose.r2 as r2, graphslam.vertex as vertex
se2.neg_pi_to_pi = util.neg_pi_to_pi
import graphslam.edge.edge_odometry as eo, graphslam.edge.edge_landmark as el, graphslam.graph as graph
_orig = PolyElement.__truediv__
def _td(self, other):
    try: return _orig(self, other)
    except Exception: return R(0)
PolyElement.__truediv__ = _td
PolyElement.__lt__ = lambda a,b: False
PolyElement.__le__ = lambda a,b: False
graph.Graph.calc_chi2 = lambda self: R(0)          # cut: the value is not looked at by this obligation
it = iter(gens)
nx = lambda: next(it)
def symm(n):
    M=[[None]*n for _ in range(n)]
    for i in range(n):
        for j in range(i,n): M[i][j]=M[j][i]=nx()
    return symnp.array(M)
def nf(p):
    changed=True
    while changed:
        changed=False
        for t in ANG:
            ci=IDX['c'+t]; rep=1-G['s'+t]**2; new=R(0); hit=False
            for mon,cf in p.terms():
                e=mon[ci]
                if e>=2:
                    m2=list(mon); m2[ci]=e%2; new+=R({tuple(m2):cf})*rep**(e//2); hit=True
                else: new+=R({mon:cf})
            if hit: p=new; changed=True
    return p
A_ = se2.PoseSE2([nx(),nx()], G['ta']); B_ = se2.PoseSE2([nx(),nx()], G['tb']); L = r2.PoseR2([nx(),nx()])
OFF = se2.PoseSE2([nx(),nx()], G['to'])
vs = [vertex.Vertex(10,A_), vertex.Vertex(3,L,fixed=True), vertex.Vertex(-1,B_)]
es = [eo.EdgeOdometry([10,-1], symm(3), se2.PoseSE2([nx(),nx()], G['tz1'])),
      eo.EdgeOdometry([-1,10], symm(3), se2.PoseSE2([nx(),nx()], G['tz2'])),     # listed high-index-first
      eo.EdgeOdometry([-1,10], symm(3), se2.PoseSE2([nx(),nx()], G['tz3'])),     # ... twice
      el.EdgeLandmark([10,3], symm(2), r2.PoseR2([nx(),nx()]), OFF, 0),
      el.EdgeLandmark([-1,3], symm(2), r2.PoseR2([nx(),nx()]), OFF, 0)]
t0=time.time()
g = graph.Graph(es, vs)
# ---- spec system (dense, by list position), from each edge's own error/Jacobians *before* the update
pos = {10:0, 3:3, -1:5}; dim = {10:3, 3:2, -1:3}; N=8
Hs=[[R(0)]*N for _ in range(N)]; bs=[R(0)]*N
for e in es:
    err=e.calc_error(); Js=e.calc_jacobians(); Om=e.information; m=len(err.data)
    for a,va in enumerate(e.vertex_ids):
        Ja=Js[a]; da=dim[va]
        for i in range(da):
            bs[pos[va]+i] += sum((Ja.data[r*da+i]*Om.data[r*m+c]*err.data[c] for r in range(m) for c in range(m)), R(0))
        for b_,vb in enumerate(e.vertex_ids):
            Jb=Js[b_]; db=dim[vb]
            for i in range(da):
                for j in range(db):
                    Hs[pos[va]+i][pos[vb]+j] += sum((Ja.data[r*da+i]*Om.data[r*m+c]*Jb.data[c*db+j] for r in range(m) for c in range(m)), R(0))
fixed=[3,4]; free=[0,1,2,5,6,7]
print("spec assembled", round(time.time()-t0,1),"s")
g.optimize(max_iter=1, fix_first_pose=False, verbose=False)
Acode, rhs = GHOST['A'], GHOST['b']
dx=[G[f'dx{i}'] for i in range(N)]
code_eqs=[nf(sum((Acode.data[i*N+j]*dx[j] for j in range(N)), R(0)) - rhs.data[i]) for i in range(N)]
spec_eqs=[nf(sum((Hs[k][j]*dx[j] for j in free), R(0)) + bs[k]) for k in free] + [dx[j] for j in fixed]
print("systems built", round(time.time()-t0,1),"s; code eq sizes", [len(p) for p in code_eqs])
# ---- constant-cofactor search: target in span_Q(gens)?  find by exact evaluation at a random rational point, then verify symbolically
rnd=random.Random(1)
def rand_point():
    pt=[]
    for n in names:
        if n.startswith('dx') or n.startswith('cdx') or n.startswith('sdx'): continue
        if n[0]=='c' and n[1:] in ANG: continue
        if n[0]=='s' and n[1:] in ANG: continue
        pt.append((G[n], QQ(rnd.randint(-9,9), rnd.randint(1,7))))
    for a in ANG:
        t=QQ(rnd.randint(-5,5), rnd.randint(1,4)); pt += [(G['c'+a], (1-t*t)/(1+t*t)), (G['s'+a], 2*t/(1+t*t))]
    return pt
def linform(p, pt):
    q=p.evaluate(pt)            # polynomial in dx only (and unused gens)
    q=q if isinstance(q, PolyElement) else None
    v=[QQ(0)]*(N+1)
    if q is None: return v
    for mon,cf in q.terms():
        nz=[(str(q.ring.gens[i]),e) for i,e in enumerate(mon) if e]
        if not nz: v[N]+=cf
        else:
            (nm,e),=nz; assert e==1; v[int(nm[2:])]+=cf
    return v
def in_span(target, gens_):
    rows=[]; rhs_=[]
    for _ in range(3):                      # a constant cofactor vector must work at every point: stack three
        pt=rand_point()
        Mi=[[Rational(int(x.numerator), int(x.denominator)) for x in linform(gp,pt)] for gp in gens_]
        ti=[Rational(int(x.numerator), int(x.denominator)) for x in linform(target,pt)]
        for r in range(N+1):
            rows.append([Mi[g][r] for g in range(len(gens_))]); rhs_.append(ti[r])
    try: sol=Matrix(rows).gauss_jordan_solve(Matrix(rhs_))[0]
    except ValueError: return False, None
    sol=sol.subs({s:0 for s in sol.free_symbols})
    resid=target - sum((R(QQ(int(c.p),int(c.q)))*gp for c,gp in zip(sol,gens_)), R(0))
    return nf(resid)==0, [str(c) for c in sol]
okf = all(in_span(s_,code_eqs)[0] for s_ in spec_eqs)
okb = all(in_span(c_,spec_eqs)[0] for c_ in code_eqs)
print(f"code system => spec system: {okf};  spec system => code system: {okb};  total {time.time()-t0:.1f}s")
