import numpy as np, warnings, io, os, tempfile, logging
from graphslam.pose.r2 import PoseR2
from graphslam.pose.r3 import PoseR3
from graphslam.pose.se2 import PoseSE2
from graphslam.pose.se3 import PoseSE3
from graphslam.vertex import Vertex
from graphslam.edge.edge_odometry import EdgeOdometry
from graphslam.edge.edge_landmark import EdgeLandmark
from graphslam.graph import Graph
from graphslam.g2o_parameters import *
rng = np.random.default_rng(2)
def rq():
    q = rng.normal(size=4); q/=np.linalg.norm(q); return q
def rse3(scale=5): return PoseSE3(rng.normal(size=3)*scale, rq())
def rse2(scale=5): return PoseSE2(rng.normal(size=2)*scale, rng.uniform(-3,3))
def spd(n):
    A = rng.normal(size=(n,n)); return A@A.T + n*np.eye(n)

# C17: equals across edge types
eo = EdgeOdometry([0,1], np.eye(3), rse2())
el = EdgeLandmark([0,1], np.eye(2), PoseR2([1,2]), PoseSE2.identity(), 0)
for a,b in [(eo,el),(el,eo)]:
    try: print("equals", type(a).__name__, type(b).__name__, a.equals(b))
    except Exception as ex: print("equals raised", type(a).__name__, type(b).__name__, repr(ex))
# pose equals across types
for a,b in [(PoseR2([1,2]), PoseR3([1,2,3])), (PoseSE2([1,2],3), PoseSE3([1,2,3],[0,0,0,1])), (PoseR3([1,2,3]), PoseSE2([1,2],3))]:
    for x,y in [(a,b),(b,a)]:
        try: print("pose equals", type(x).__name__, type(y).__name__, x.equals(y))
        except Exception as ex: print("pose equals raised", type(x).__name__, type(y).__name__, repr(ex))
# edges w/ different info shape/estimate types
e1 = EdgeOdometry([0,1], np.eye(3), rse2()); e2 = EdgeOdometry([0,1], np.eye(6), rse3())
for x,y in [(e1,e2),(e2,e1)]:
    try: print("edge equals", x.equals(y))
    except Exception as ex: print("edge equals raised", repr(ex))
e1 = EdgeOdometry([0,1], np.eye(3), rse2()); e2 = EdgeOdometry([0,1], np.eye(3), PoseR3([1,2,3]))
for x,y in [(e1,e2),(e2,e1)]:
    try: print("edge equals same info shape diff estimate", x.equals(y))
    except Exception as ex: print("edge equals raised", repr(ex))
# offset_id None vs int; offset type differ
el2 = EdgeLandmark([0,1], np.eye(2), PoseR2([1,2]), PoseR2([0,0]), None)
for x,y in [(el,el2),(el2,el)]:
    try: print("landmark equals", x.equals(y))
    except Exception as ex: print("landmark equals raised", repr(ex))
# symmetric?  asymmetry from relative norm of self
a = PoseR2([1e-9, 0]); b = PoseR2([2e-9,0])
print("tiny:", a.equals(b), b.equals(a))
a = PoseR2([1.0, 0]); b = PoseR2([1.0+1.5e-6,0]); print(a.equals(b), b.equals(a))
# zero pose vs other
a = PoseR2([0.,0.]); b= PoseR2([1e-7,0]); print("zero:", a.equals(b), b.equals(a))
# nan
# graph equals with different vertex types
