import sys, os
sys.path.insert(0, os.path.dirname(os.path.abspath(__file__)))
import symnp
from sympy.polys.rings import ring
from sympy import QQ
from sympy.polys.rings import PolyElement
sys.modules['numpy']=symnp
sys.path.insert(0,'/repo')
names=[f"x{i}" for i in range(40)]
R,*g=ring(names,QQ); symnp.CTX.ring=R
# token registry: format(sym) -> opaque token ; float(token) -> sym
TOK={}
def sym_format(self, spec=""):
    t="<%s>"%_orig_str(self).replace(" ","")
    TOK[t]=self; return t
_orig_str=PolyElement.__str__
PolyElement.__format__=sym_format
PolyElement.__str__=lambda self: sym_format(self)
def sym_float(s):
    if isinstance(s,str) and s in TOK: return TOK[s]
    return float(s)
symnp.triu_indices=lambda n,k=0: ([i for i in range(n) for j in range(i+k,n)],[j for i in range(n) for j in range(i+k,n)])
symnp.tril_indices=lambda n,k=0: ([i for i in range(n) for j in range(0,i+k+1)],[j for i in range(n) for j in range(0,i+k+1)])
import graphslam.edge.edge_odometry as eo, graphslam.vertex as vx, graphslam.pose.se2 as se2, graphslam.util as util
for m in (eo,vx): m.float=sym_float
util.neg_pi_to_pi=lambda a:a; se2.neg_pi_to_pi=lambda a:a   # prototype only: skip wrap
P=se2.PoseSE2([g[0],g[1]],g[2])
v=vx.Vertex(-7,P); line=v.to_g2o(); print(repr(line))
v2=vx.Vertex.from_g2o(line); print(v2.id, v2.pose.data, [a is b or a==b for a,b in zip(v2.pose.data,P.data)])
Om=symnp.array([[g[10],g[11],g[12]],[g[11],g[13],g[14]],[g[12],g[14],g[15]]])
e=eo.EdgeOdometry([3,-7],Om,se2.PoseSE2([g[3],g[4]],g[5]),[v,v]); line=e.to_g2o(); print(repr(line))
e2=eo.EdgeOdometry.from_g2o(line); print(e2.vertex_ids, e2.estimate.data, all(a==b for a,b in zip(e2.information.data,Om.data)))
