import sys, types, time, importlib, importlib.util, os
import sympy
from sympy.polys.rings import ring
from sympy import QQ
sys.path.insert(0, os.path.dirname(os.path.abspath(__file__)))
import symnp
# install shim as numpy for graphslam import only
real_numpy = sys.modules.get('numpy')
sys.modules['numpy']=symnp
for k in list(sys.modules):
    if k.startswith('graphslam'): del sys.modules[k]
sys.path.insert(0,'/repo')
import graphslam.pose.se3 as se3, graphslam.pose.r3 as r3
import graphslam.vertex as vertex
# util.neg_pi_to_pi uses %: skip se2 in this prototype
import graphslam.edge.edge_odometry as eo
import graphslam.edge.edge_landmark as el

names = [f"{p}{i}" for p in ("a","b","z","o") for i in range(7)] + [f"d{i}" for i in range(6)] + ["l0","l1","l2","m0","m1","m2"]
R, *gens = ring(names, QQ)
symnp.CTX.ring = R
G = dict(zip(names, gens))
def pose(p): return se3.PoseSE3([G[p+'0'],G[p+'1'],G[p+'2']],[G[p+'3'],G[p+'4'],G[p+'5'],G[p+'6']])
A,B,Z,O = pose('a'),pose('b'),pose('z'),pose('o')
units = {G[p+'6']**2: 1 - G[p+'3']**2 - G[p+'4']**2 - G[p+'5']**2 for p in 'abzo'}
def nf(p):
    # normal form: replace w^2 by 1 - x^2-y^2-z^2 repeatedly
    ws = [(G[q+'6'], 1 - G[q+'3']**2 - G[q+'4']**2 - G[q+'5']**2, names.index(q+'6')) for q in 'abzo']
    changed=True
    while changed:
        changed=False
        for w, rep, wi in ws:
            new = R(0); hit=False
            for mon, coeff in p.terms():
                e = mon[wi]
                if e>=2:
                    hit=True
                    m2 = list(mon); m2[wi]=e%2
                    new += R({tuple(m2):coeff}) * rep**(e//2)
                else:
                    new += R({mon:coeff})
            if hit: p=new; changed=True
    return p
t=time.time()
e = eo.EdgeOdometry([0,1], symnp.eye(6), Z, [vertex.Vertex(0,A), vertex.Vertex(1,B)])
J = e.calc_jacobians()
print("calc_jacobians symbolic exec", time.time()-t, [j.shape for j in J], "max terms", max(len(x) for j in J for x in j.data))
# derivative of error wrt boxplus at 0 for vertex 0: boxplus branch uses np.linalg.norm/sqrt -> do manually: first-order: qw=1, q=d[3:6]
t=time.time()
D = symnp.ndarray([G[f'd{i}'] for i in range(6)], (6,))
def boxplus_first_order(P, D):
    # pose (+) PoseSE3(d[:3], [d3,d4,d5,1])  (sqrt(1-|d|^2) = 1 + O(d^2))
    return P + se3.PoseSE3([D[0],D[1],D[2]],[D[3],D[4],D[5],R(1)])
for k,(va,vb) in enumerate([(boxplus_first_order(A,D),B),(A,boxplus_first_order(B,D))]):
    e2 = eo.EdgeOdometry([0,1], symnp.eye(6), Z, [vertex.Vertex(0,va), vertex.Vertex(1,vb)])
    err = e2.calc_error()
    dvars = [G[f'd{i}'] for i in range(6)]
    zero_d = {names.index(f'd{i}') for i in range(6)}
    worst=0
    for r in range(6):
        for c in range(6):
            de = err.data[r].diff(dvars[c])
            # evaluate at d=0
            de0 = R({m:cf for m,cf in de.terms() if all(m[i]==0 for i in zero_d)})
            diff = nf(de0 - J[k].data[r*6+c])
            if diff != 0: print("MISMATCH", k, r, c, diff); worst+=1
    print("vertex",k,"mismatches",worst, "time", time.time()-t)
