import sys, time
exec(open('run_proto.py').read().split("t=time.time()\ne = eo.EdgeOdometry")[0])
import z3, subprocess
zv = {n: z3.Real(n) for n in names}
def to_z3(p):
    terms=[]
    for mon, cf in p.terms():
        t = z3.RealVal(str(cf))
        for i,e_ in enumerate(mon):
            for _ in range(e_): t = t*zv[names[i]]
        terms.append(t)
    return z3.Sum(terms) if terms else z3.RealVal(0)
gens_ = {q: G[q+'3']**2+G[q+'4']**2+G[q+'5']**2+G[q+'6']**2-1 for q in 'abzo'}
def nf_cert(p):
    """return (nf, cofactors) with p = nf + sum h_q * g_q"""
    H = {q:R(0) for q in 'abzo'}
    changed=True
    while changed:
        changed=False
        for q in 'abzo':
            wi = names.index(q+'6')
            for mon, coeff in list(p.terms()):
                if mon[wi]>=2:
                    m2=list(mon); m2[wi]-=2
                    t = R({tuple(m2):coeff})
                    p = p - t*gens_[q]; H[q]+=t; changed=True
    return p, H
l = (A+B)+Z; r_ = A+(B+Z)
d = l.data[0]-r_.data[0]
t=time.time(); n, H = nf_cert(d); print("nf", n, "time", time.time()-t, {q:len(h) for q,h in H.items()})
# z3 checks certificate: d - sum h g == 0 identically
cert = to_z3(d) - z3.Sum([to_z3(H[q])*to_z3(gens_[q]) for q in 'abzo'])
s=z3.Solver(); s.set("timeout",60000); s.add(cert != 0)
t=time.time(); print("z3 cert check:", s.check(), time.time()-t)
open('cert.smt2','w').write("(set-logic QF_NRA)\n"+s.to_smt2())
for cmd in (["cvc5","--tlimit=60000","cert.smt2"],["z3","-T:60","cert.smt2"]):
    t=time.time(); out=subprocess.run(cmd,capture_output=True,text=True); print(cmd[0], out.stdout.strip()[:50], out.stderr.strip()[:100], round(time.time()-t,2))
# then the final step: hyps g_q = 0 and d = sum h g  => d = 0 ; with h as opaque
