import z3, time
# C17 band lemma: code: res = n / max(na, tol) < tol ; other direction: n / max(nb, tol) < tol ; |na-nb| <= n ; n,na,nb >=0 ; tol>0
n,na,nb,tol = z3.Reals("n na nb tol")
mx = lambda a,b: z3.If(a>b,a,b)   # python max(a,b) returns b if b>a else a
res_ab = n / mx(na,tol) < tol
res_ba = n / mx(nb,tol) < tol
base = [n>=0, na>=0, nb>=0, tol>0, na-nb<=n, nb-na<=n]
def prove(name, hyp, goal):
    s=z3.Solver(); s.set("timeout",20000); s.add(*base); s.add(*hyp); s.add(z3.Not(goal)); t=time.time(); r=s.check(); print(name, r, round(time.time()-t,3), s.model() if r==z3.sat else "")
prove("far below -> True", [n <= tol*mx(na,tol)/2], res_ab)
prove("far above -> False", [n >= 2*tol*mx(mx(na,nb),tol)], z3.Not(res_ab))
prove("far above -> False (rev)", [n >= 2*tol*mx(mx(na,nb),tol)], z3.Not(res_ba))
prove("below both", [n <= tol*mx(na,tol)/2, n <= tol*mx(nb,tol)/2], z3.And(res_ab,res_ba))
# Is equals symmetric in general? (expect sat = asymmetric inside band)
prove("symmetric always? (expect sat)", [], res_ab==res_ba)
# wrap range in reals: r = a + pi - 2pi*k, 0<= r < 2pi -> r - pi in [-pi,pi)
a,pi_ = z3.Reals("a pi"); k=z3.Int("k")
s=z3.Solver(); s.add(pi_>3, pi_<4); r = a+pi_-2*pi_*z3.ToReal(k); s.add(r>=0, r<2*pi_); w=r-pi_
s.add(z3.Not(z3.And(w>=-pi_, w<pi_))); print("wrap range", s.check())
# wrap idempotent / congruent: two wraps of same class equal
k2=z3.Int("k2"); m=z3.Int("m"); a2=z3.Real("a2")
s=z3.Solver(); s.set("timeout",20000); s.add(pi_>3, pi_<4)
w1 = a - 2*pi_*z3.ToReal(k); w2 = a2 - 2*pi_*z3.ToReal(k2)
s.add(w1>=-pi_, w1<pi_, w2>=-pi_, w2<pi_, a2 == a + 2*pi_*z3.ToReal(m)); s.add(w1!=w2); t=time.time(); print("wrap congruent unique (nonlinear int*real):", s.check(), round(time.time()-t,2))
# linearised: u = a/(2pi) turns
u,u2=z3.Reals("u u2"); s=z3.Solver(); w1=u-z3.ToReal(k); w2=u2-z3.ToReal(k2)
s.add(w1>=-0.5,w1<0.5,w2>=-0.5,w2<0.5,u2==u+z3.ToReal(m), w1!=w2); print("turn-units version:", s.check())
