import z3, math, time
F=z3.Float64(); RNE=z3.RNE()
PI=z3.FPVal(math.pi,F); TWO=z3.FPVal(2*math.pi,F); Z=z3.FPVal(0.0,F)
u=z3.FP('u',F)
v=z3.fpSub(RNE,u,PI)
t=z3.fpAdd(RNE,v,PI)
w=z3.fpSub(RNE,t,PI)
s=z3.Solver(); s.set("timeout",600000)
s.add(z3.fpGEQ(u,Z), z3.fpLT(u,TWO))
# t must lie in [0, 2pi) for % to be the identity; check that too
s.push(); s.add(z3.Or(z3.fpLT(t,Z), z3.fpGEQ(t,TWO))); t0=time.time(); print("t outside [0,2pi):", s.check(), round(time.time()-t0,1)); s.pop()
s.push(); s.add(z3.Not(z3.fpEQ(w,v))); t0=time.time(); r=s.check(); print("wrap(wrap) != wrap:", r, round(time.time()-t0,1)); 
if r==z3.sat: print(s.model())
s.pop()
