import sys, time
exec(open('run_proto.py').read().split("t=time.time()\ne = eo.EdgeOdometry")[0])
zero_d = {names.index(f'd{i}') for i in range(6)}
D = symnp.ndarray([G[f'd{i}'] for i in range(6)], (6,))
L = r3.PoseR3([G['l0'],G['l1'],G['l2']]); M = r3.PoseR3([G['m0'],G['m1'],G['m2']])
# landmark SE3: vertices A (pose), L (point), offset O, estimate M
t=time.time()
e = el.EdgeLandmark([0,1], symnp.eye(3), M, O, 0, [vertex.Vertex(0,A), vertex.Vertex(1,L)])
J = e.calc_jacobians(); print("landmark calc_jacobians", time.time()-t, [j.shape for j in J], max(len(x) for j in J for x in j.data))
va = A + se3.PoseSE3([D[0],D[1],D[2]],[D[3],D[4],D[5],R(1)])
e2 = el.EdgeLandmark([0,1], symnp.eye(3), M, O, 0, [vertex.Vertex(0,va), vertex.Vertex(1,L)])
err = e2.calc_error(); bad=0
for r in range(3):
    for c in range(6):
        de = err.data[r].diff(G[f'd{c}']); de0 = R({m:cf for m,cf in de.terms() if all(m[i]==0 for i in zero_d)})
        if nf(de0 - J[0].data[r*6+c]) != 0: bad+=1
print("landmark SE3 wrt pose: mismatches", bad, "time", time.time()-t)
# C07: invariance of odometry error under left composition by O (as T)
t=time.time()
e0 = eo.EdgeOdometry([0,1], symnp.eye(6), Z, [vertex.Vertex(0,A), vertex.Vertex(1,B)]).calc_error()
e1 = eo.EdgeOdometry([0,1], symnp.eye(6), Z, [vertex.Vertex(0,O+A), vertex.Vertex(1,O+B)]).calc_error()
print("terms", [len(x) for x in e1.data])
print("C07 odometry SE3 invariance:", [nf(a-b)==0 for a,b in zip(e0.data,e1.data)], time.time()-t)
