import numpy as np
from graphslam.pose.se2 import PoseSE2
from graphslam.pose.r2 import PoseR2
from graphslam.vertex import Vertex
from graphslam.edge.base_edge import BaseEdge
x = np.nextafter(-np.pi, -10)
p = PoseSE2([1.0, 2.0], x)
print("theta stored:", repr(p[2]), " copy:", repr(p.copy()[2]), " equal bits:", p[2] == p.copy()[2])
class E(BaseEdge):
    def is_valid(self): return self._is_valid()
    def calc_error(self): return np.array([np.linalg.norm((self.vertices[0].pose - self.vertices[1].pose).position) - self.estimate])
v0, v1 = Vertex(0, p), Vertex(1, PoseSE2([3., -1.], 0.5))
e = E([0, 1], np.eye(1), 1.0, [v0, v1])
before = v0.pose.tobytes(); e.calc_jacobians(); print("pose bits unchanged by numerical calc_jacobians:", v0.pose.tobytes() == before, repr(v0.pose[2]))
