import numpy as np, itertools
from graphslam.pose.r2 import PoseR2
from graphslam.pose.r3 import PoseR3
from graphslam.pose.se2 import PoseSE2
from graphslam.pose.se3 import PoseSE3
from graphslam.vertex import Vertex
from graphslam.edge.edge_odometry import EdgeOdometry
from graphslam.edge.edge_landmark import EdgeLandmark
from graphslam.graph import Graph
T = {'R2': lambda: PoseR2([1.,2.]), 'R3': lambda: PoseR3([1.,2.,3.]), 'SE2': lambda: PoseSE2([1.,2.],.3), 'SE3': lambda: PoseSE3([1.,2.,3.],[0.,0.,0.,1.])}
C = {'R2':2,'R3':3,'SE2':3,'SE3':6}
ok_lm = {('SE2','R2'),('SE3','R3'),('R2','R2'),('R3','R3')}
acc_bad=[]; rej_good=[]
for a,b,z,o in itertools.product(T,T,T,T):
    for n in range(1,8):
        vs=[Vertex(0,T[a]()),Vertex(1,T[b]())]
        e=EdgeLandmark([0,1],np.eye(n),T[z](),T[o]())
        try: Graph([e],vs); acc=True
        except AssertionError: acc=False
        good = (a,b) in ok_lm and z==b and o==a and n==C[b]
        if acc and not good: acc_bad.append((a,b,z,o,n))
        if good and not acc: rej_good.append((a,b,z,o,n))
print("landmark accepted-but-inconsistent:", acc_bad); print("rejected good:", rej_good)
acc_bad=[]; rej_good=[]
for a,b,z in itertools.product(T,T,T):
    for n in range(1,8):
        vs=[Vertex(0,T[a]()),Vertex(1,T[b]())]
        e=EdgeOdometry([0,1],np.eye(n),T[z]())
        try: Graph([e],vs); acc=True
        except AssertionError: acc=False
        good = a==b==z and n==C[a]
        if acc and not good: acc_bad.append((a,b,z,n))
        if good and not acc: rej_good.append((a,b,z,n))
print("odometry accepted-but-inconsistent:", acc_bad); print("rejected good:", rej_good)
# other: estimate ndarray not pose; info not square; 1 or 3 vertex ids; duplicate ids; unknown id
vs=[Vertex(0,T['R2']()),Vertex(1,T['R2']()),Vertex(2,T['R2']())]
for ids in [[0],[0,1,2],[0,5],[0,0]]:
    try: Graph([EdgeOdometry(ids,np.eye(2),T['R2']())],[Vertex(0,T['R2']()),Vertex(1,T['R2']()),Vertex(2,T['R2']())]); print(ids,"accepted")
    except Exception as ex: print(ids, "raised", type(ex).__name__)
try: Graph([EdgeOdometry([0,1],np.eye(2),np.array([1.,2.]))],vs); print("ndarray estimate accepted")
except Exception as ex: print("ndarray estimate", type(ex).__name__)
try: Graph([EdgeOdometry([0,1],np.ones((2,3)),T['R2']())],vs); print("2x3 info accepted")
except Exception as ex: print("2x3 info", type(ex).__name__)
try: Graph([EdgeOdometry([0,1],np.ones(4),T['R2']())],vs); print("flat info accepted")
except Exception as ex: print("flat info", type(ex).__name__)
# duplicated vertex ids in vertex list: edge binds to last
vs=[Vertex(0,T['R2']()),Vertex(1,T['R2']()),Vertex(1,PoseR2([9.,9.]))]
g=Graph([EdgeOdometry([0,1],np.eye(2),T['R2']())],vs); print("dup ids bind to:", g._edges[0].vertices[1].pose)
# python -O: assert stripped
