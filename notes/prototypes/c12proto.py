"""Design-round prototype: enumerate all paths of the real Graph.optimize with symbolic chi2 values (z3 terms as scalars)."""
import sys, itertools, time
sys.path.insert(0, sys.argv[1] if len(sys.argv)>1 else "/repo")
import z3, numpy as np
import graphslam.graph as G
from graphslam.graph import Graph
from graphslam.vertex import Vertex
from graphslam.pose.r2 import PoseR2
from graphslam.edge.edge_odometry import EdgeOdometry

class Explorer:
    def __init__(self): self.trail=[]; self.pos=0; self.pc=[]; self.work=[]
    def decide(self, cond):
        if self.pos < len(self.trail):
            d=self.trail[self.pos]
        else:
            feas=[]
            for val in (True, False):
                s=z3.Solver(); s.set("timeout",2000); s.add(*HYP); s.add(*self.pc); s.add(cond if val else z3.Not(cond))
                if s.check()!=z3.unsat: feas.append(val)
            d=feas[0]
            if len(feas)==2: self.work.append(self.trail[:self.pos]+[feas[1]])
            self.trail.append(d)
        self.pos+=1; self.pc.append(cond if d else z3.Not(cond)); return d
EX=None; HYP=[]
def lift(x):
    if isinstance(x, ZS): return x.e
    return z3.RealVal(repr(float(x))) if not isinstance(x,(int,)) else z3.RealVal(x)
class ZS:
    def __init__(self,e): self.e=e
    def __add__(s,o): return ZS(s.e+lift(o))
    __radd__=__add__
    def __sub__(s,o): return ZS(s.e-lift(o))
    def __rsub__(s,o): return ZS(lift(o)-s.e)
    def __mul__(s,o): return ZS(s.e*lift(o))
    __rmul__=__mul__
    def __truediv__(s,o): return ZS(s.e/lift(o))
    def __neg__(s): return ZS(-s.e)
    def __le__(s,o): return ZB(s.e<=lift(o))
    def __lt__(s,o): return ZB(s.e<lift(o))
    def __ge__(s,o): return ZB(s.e>=lift(o))
    def __gt__(s,o): return ZB(s.e>lift(o))
    def __format__(s,spec): return "<sym>"
class ZB:
    def __init__(s,e): s.e=e
    def __bool__(s): return EX.decide(s.e)

STATE={"s":0}
def stub_cgh(self):
    return (ZS(C[(id(self), STATE["s"])]), [(v.gradient_index, np.zeros(2)) for v in self.vertices],
            [((self.vertices[i].gradient_index, self.vertices[j].gradient_index), np.eye(2)) for i in range(2) for j in range(i,2)])
def stub_chi2(self): return ZS(C[(id(self), STATE["s"])])
def stub_spsolve(A,b): STATE["s"]+=1; return np.zeros(len(b))
EdgeOdometry.calc_chi2_gradient_hessian=stub_cgh; EdgeOdometry.calc_chi2=stub_chi2; G.spsolve=stub_spsolve

def run_all(max_iter, n_edges=2):
    global EX, C, HYP
    tol=z3.Real("tol"); paths=[]; work=[[]]
    while work:
        tr=work.pop()
        vs=[Vertex(0,PoseR2([0.,0.])),Vertex(1,PoseR2([1.,0.]))]
        es=[EdgeOdometry([0,1],np.eye(2),PoseR2([1.,0.])) for _ in range(n_edges)]
        C={(id(e),s): z3.Real(f"c_{k}_{s}") for k,e in enumerate(es) for s in range(max_iter+1)}
        HYP=[c>=0 for c in C.values()]+[tol>=0]
        STATE["s"]=0
        EX=Explorer(); EX.trail=list(tr)
        g=Graph(es,vs)
        ret=g.optimize(tol=ZS(tol), max_iter=max_iter, verbose=False)
        conv=bool(ret.converged) if isinstance(ret.converged, ZB) else ret.converged
        final=g.calc_chi2()
        cs=[z3.Sum([C[(id(e),s)] for e in es]) for s in range(max_iter+1)]
        paths.append(dict(pc=list(EX.pc), s=STATE["s"], conv=conv, ret=ret, cs=cs, final=final, tol=tol, hyp=list(HYP)))
        work.extend(EX.work)
    return paths
def valid(hyp, goal):
    s=z3.Solver(); s.set("timeout",10000); s.add(*hyp); s.add(z3.Not(goal)); return s.check()
K=z3.RealVal("1e-9") if False else z3.Q(1,10**9)
for mi in (1,2,3,4):
    t=time.time(); paths=run_all(mi); bad=0
    for p in paths:
        cs,tol,s,ret=p["cs"],p["tol"],p["s"],p["ret"]; H=p["hyp"]+p["pc"]
        eq=lambda a,b: valid(H, lift(a)==b)==z3.unsat
        ok = eq(ret.initial_chi2,cs[0]) and eq(ret.final_chi2,cs[s]) and eq(p["final"],cs[s]) and ret.num_iterations==s and len(ret.iteration_results) in (s,s+1)
        ok = ok and all(eq(ret.iteration_results[k].chi2, cs[k+1]) for k in range(s))
        # band: run ended with converged at comparison index i=s (compares c_s with c_{s-1}); no earlier comparison may have been forced to stop
        FLOOR=z3.Q(1,10**12)
        def must(i): return z3.And(cs[i-1]>=FLOOR, cs[i]<=cs[i-1], cs[i-1]-cs[i] < (1-K)*tol*cs[i-1]-K*tol)
        def may(i):  return z3.And(cs[i]<=cs[i-1], z3.Or(cs[i-1]<FLOOR, cs[i-1]-cs[i] <= (1+K)*tol*cs[i-1]+K*tol))
        for i in range(1,s): ok = ok and valid(H, z3.Not(must(i)))==z3.unsat      # earlier comparisons did not have to stop
        if s>=1:
            if p["conv"]: ok = ok and valid(H, may(s))==z3.unsat
            else:         ok = ok and valid(H, z3.Not(must(s)))==z3.unsat
        else: ok = ok and not p["conv"]
        bad += (not ok)
    print(f"max_iter={mi}: {len(paths)} paths, failing obligations on {bad} paths, {time.time()-t:.1f}s; (s,converged):", sorted({(p['s'],p['conv']) for p in paths}))
